"""Worker pool (fork context) and fork-per-execution isolation with fd-level output capture."""
import multiprocessing as mp
import os
import pickle
import select
import signal
import sys
import tempfile
import time
import traceback

NPROC = int(os.environ.get("VERIF_JOBS", str(min(16, os.cpu_count() or 1))))


def _child(fn, args, wfd, capture):
    try:
        if capture:
            # fd-level capture (Vela prints through paths contextlib.redirect_stdout misses)
            tf = tempfile.TemporaryFile()
            sys.stdout.flush()
            sys.stderr.flush()
            os.dup2(tf.fileno(), 1)
            os.dup2(tf.fileno(), 2)
        try:
            res = ("ok", fn(*args))
        except SystemExit as e:
            res = ("exit", e.code)
        except BaseException as e:  # noqa
            res = ("exc", type(e).__name__, str(e)[:2000], traceback.format_exc()[-6000:])
        text = ""
        if capture:
            sys.stdout.flush()
            sys.stderr.flush()
            tf.seek(0)
            text = tf.read().decode("utf-8", "replace")
        data = pickle.dumps((res, text), protocol=pickle.HIGHEST_PROTOCOL)
        off = 0
        while off < len(data):
            off += os.write(wfd, data[off:off + 65536])
    finally:
        os._exit(0)


def run_forked(fn, args=(), timeout=120.0, capture=True):
    """Run fn(*args) in a forked child. Returns (status, text): status is ('ok', value) |
    ('exit', code) | ('exc', type, msg, tb) | ('timeout',) | ('died', waitstatus)."""
    r, w = os.pipe()
    sys.stdout.flush()
    sys.stderr.flush()
    pid = os.fork()
    if pid == 0:
        os.close(r)
        _child(fn, args, w, capture)
    os.close(w)
    chunks = []
    deadline = time.time() + timeout
    timed_out = False
    while True:
        left = deadline - time.time()
        if left <= 0:
            timed_out = True
            break
        rl, _, _ = select.select([r], [], [], left)
        if not rl:
            timed_out = True
            break
        b = os.read(r, 1 << 20)
        if not b:
            break
        chunks.append(b)
    os.close(r)
    if timed_out:
        try:
            os.kill(pid, signal.SIGKILL)
        except ProcessLookupError:
            pass
        os.waitpid(pid, 0)
        return ("timeout",), ""
    _, st = os.waitpid(pid, 0)
    data = b"".join(chunks)
    if not data:
        return ("died", st), ""
    try:
        res, text = pickle.loads(data)
    except Exception:
        return ("died", st), ""
    return res, text


def _init_worker(init, initargs):
    signal.signal(signal.SIGINT, signal.SIG_IGN)
    if init:
        init(*initargs)


def pmap(fn, items, init=None, initargs=(), chunksize=1, nproc=None, ordered=False):
    """Map fn over items on a fork pool; yields results as they complete (or in order)."""
    items = list(items)
    nproc = nproc or NPROC
    if nproc <= 1 or len(items) <= 1:
        if init:
            init(*initargs)
        for it in items:
            yield fn(it)
        return
    ctx = mp.get_context("fork")
    with ctx.Pool(min(nproc, len(items)), initializer=_init_worker, initargs=(init, initargs)) as pool:
        it = pool.imap(fn, items, chunksize) if ordered else pool.imap_unordered(fn, items, chunksize)
        for r in it:
            yield r
