/* Stand-alone driver for the tree's mlw_encode.c / mlw_decode.c under ASan+UBSan with asserts enabled.
 * stdin: records  'E' u32 n, n x int16           -> encode, decode, compare
 *                 'R' 12 x i32 (iu, ou, O, H, W, I, blk, dw, pk, bits, dh, dw2), O*H*W*I x int16 -> reorder_encode, decode
 * stdout: one line per record: "ok <len>" | "mismatch ..." | "rejected" */
#include <stdint.h>
#include <stdio.h>
#include <stdlib.h>
#include <string.h>
#include "mlw_encode.h"
#include "mlw_decode.h"

static int rd(void *p, size_t n) { return fread(p, 1, n, stdin) == n; }

int main(void) {
    int c;
    setvbuf(stdout, NULL, _IONBF, 0);
    while ((c = getchar()) != EOF) {
        if (c == 'E') {
            uint32_t n;
            if (!rd(&n, 4)) return 2;
            int16_t *in = malloc(n ? n * 2 : 2);
            if (n && !rd(in, n * 2)) return 2;
            uint8_t *out = NULL;
            int len = mlw_encode(in, (int)n, &out, 0);
            if (len < 0) { printf("rejected\n"); free(in); mlw_free_outbuf(out); continue; }
            int16_t *dec = NULL;
            int m = mlw_decode(out, len, &dec, 0);
            int bad = (len % 16) != 0 || m < (int)n;
            for (uint32_t i = 0; !bad && i < n; i++) if (dec[i] != in[i]) bad = 1;
            for (int i = (int)n; !bad && i < m; i++) if (dec[i] != 0) bad = 1;
            if (bad) printf("mismatch n=%u len=%d decoded=%d\n", n, len, m); else printf("ok %d\n", len);
            free(in); mlw_free_outbuf(out); free(dec);
        } else if (c == 'R') {
            int32_t p[12];
            if (!rd(p, sizeof p)) return 2;
            size_t n = (size_t)p[2] * p[3] * p[4] * p[5];
            int16_t *in = malloc(n ? n * 2 : 2);
            if (n && !rd(in, n * 2)) return 2;
            int strides[4] = { p[3] * p[4] * p[5], p[4] * p[5], p[5], 1 };
            uint8_t *out = NULL;
            int64_t padded = 0;
            int len = mlw_reorder_encode(p[0], p[1], p[2], p[3], p[4], p[5], strides, in, p[6], p[7], p[8], p[9], p[10], p[11], &out, &padded, 0);
            if (len < 0) { printf("rejected\n"); free(in); mlw_free_outbuf(out); continue; }
            int16_t *dec = NULL;
            int m = mlw_decode(out, len, &dec, 0);
            printf("ok %d %lld %d\n", len, (long long)padded, m);
            free(in); mlw_free_outbuf(out); free(dec);
        } else return 3;
    }
    return 0;
}
