"""C16 helper: one tri-state predicate per documented constraint sentence, written from the sentence (not from the code).

Each predicate takes a Subject and returns True (clearly satisfied), False (clearly violated) or None (the sentence does
not decide this instance / is ambiguous for it).  Only clear verdicts are asserted by the driver."""
import numpy as np

from .c16_report import norm

INT_TYPES = ("int16", "int32", "int8", "uint8")
ROLES = {
    "CONV_2D": dict(ifm=0, weights=1, bias=2), "DEPTHWISE_CONV_2D": dict(ifm=0, weights=1, bias=2),
    "TRANSPOSE_CONV": dict(ifm=2, weights=1, bias=3), "FULLY_CONNECTED": dict(ifm=0, weights=1, bias=2),
    "SPLIT": dict(ifm=1),
}
BINARY = ("ADD", "SUB", "MUL", "MINIMUM", "MAXIMUM", "SQUARED_DIFFERENCE")
FAF = {0: None, 1: "RELU", 2: "RELU_N1_TO_1", 3: "RELU6", 4: "TANH", 5: "SIGN_BIT"}


class Subject:
    def __init__(self, model, op_index):
        self.sg = model["subgraphs"][0]
        self.buffers = model["buffers"]
        self.op = self.sg["ops"][op_index]
        self.name = self.op["op"]
        self.T = self.sg["tensors"]
        r = ROLES.get(self.name, dict(ifm=0))
        ins = self.op["inputs"]

        def g(k):
            i = r.get(k)
            return self.T[ins[i]] if i is not None and i < len(ins) and ins[i] >= 0 else None

        self.ifm = g("ifm")
        self.weights = g("weights")
        self.bias = g("bias")
        self.ifm2 = self.T[ins[1]] if self.name in BINARY and len(ins) > 1 else None
        if self.name == "CONCATENATION":
            self.ifms = [self.T[i] for i in ins]
        else:
            self.ifms = [t for t in (self.ifm, self.ifm2) if t is not None]
        self.ofm = self.T[self.op["outputs"][0]]
        self.ofms = [self.T[i] for i in self.op["outputs"]]
        self.opts = self.op["opts"][1] if self.op["opts"] else {}

    def data_tensors(self):
        return [t for t in self.ifms + ([self.weights] if self.weights else []) + self.ofms if t is not None]

    def all_tensors(self):
        return [self.T[i] for i in self.op["inputs"] if i >= 0] + self.ofms

    def values(self, t):
        from ..tfl.build import NP_DTYPES
        raw = self.buffers[t["buffer"]]
        if raw is None:
            return None
        return np.frombuffer(raw, dtype=NP_DTYPES[t["dtype"]]).reshape(t["shape"] if t["shape"] is not None else [-1])

    def param(self, idx):
        i = self.op["inputs"][idx]
        return None if i < 0 else self.T[i]

    # kernel geometry
    def conv_geom(self):
        o = self.opts
        if self.name in ("CONV_2D", "TRANSPOSE_CONV"):
            kh, kw = self.weights["shape"][1], self.weights["shape"][2]
        elif self.name == "DEPTHWISE_CONV_2D":
            kh, kw = self.weights["shape"][1], self.weights["shape"][2]
        else:
            kh, kw = o.get("FilterHeight"), o.get("FilterWidth")
        return dict(kh=kh, kw=kw, sh=o.get("StrideH", 1), sw=o.get("StrideW", 1), dh=o.get("DilationHFactor", 1) or 1, dw=o.get("DilationWFactor", 1) or 1,
                    same=o.get("Padding", 0) == 0)


P = {}


def pred(text):
    def deco(f):
        P[norm(text)] = f
        return f
    return deco


def _signed(dt):
    return dt in ("int8", "int16", "int32", "int64")


# generic ---------------------------------------------------------------------------------------
pred("All required operator attributes must be specified")(lambda s: True)
@pred("Input(s) and Output tensors must not be dynamic")
def _not_dynamic(s):
    # a rank-0 tensor without constant data is a legal TFLite scalar, but the sentence may count it as dynamic: undecided
    for t in s.all_tensors():
        if t["shape"] == [] and s.buffers[t["buffer"]] is None:
            return None
    return True
pred("Input(s) and Output tensors must have a defined shape")(lambda s: all(t["shape"] is not None for t in s.all_tensors()))
pred("Output tensors cannot be scalar")(lambda s: s.ofm["shape"] != [])
pred("Input(s), Output and Weight tensors with quantization scales must be finite")(lambda s: True)
pred("Input and Output tensors must have quantization scales that fit within float32 precision")(lambda s: True)
pred("Constant tensors should not have NoneType-values")(lambda s: True)


@pred("Scalar Input tensors are only valid for op type: ADD, ARG_MAX, EXPAND_DIMS, MAXIMUM, MEAN, MINIMUM, MUL, QUANTIZE, SPLIT, SPLIT_V, SUB")
def _scalar_in(s):
    ok = ("ADD", "ARG_MAX", "EXPAND_DIMS", "MAXIMUM", "MEAN", "MINIMUM", "MUL", "QUANTIZE", "SPLIT", "SPLIT_V", "SUB")
    if any(t["shape"] == [] for t in [s.T[i] for i in s.op["inputs"] if i >= 0]):
        return s.name in ok
    return True


@pred("Input(s) and Output tensors must not be greater than 4D")
def _le4d(s):
    return all(len(t["shape"]) <= 4 for t in s.ifms + s.ofms)


@pred("Input(s), Output and Weight tensors must have quantization parameters")
def _has_quant(s):
    def q(t):
        return t["quant"] is not None and t["quant"]["scale"] and t["quant"]["zp"] is not None
    return all(q(t) for t in s.data_tensors())


@pred("Tensors must be of type: int16, int32, int8, uint8")
def _dtype(s):
    return all(t["dtype"] in INT_TYPES for t in s.data_tensors())


@pred("Tensors which are int32 are only valid when op type is: ADD, ARG_MAX, MUL, SHAPE, SUB, TRANSPOSE")
def _int32(s):
    if any(t["dtype"] == "int32" for t in s.data_tensors()):
        return s.name in ("ADD", "ARG_MAX", "MUL", "SHAPE", "SUB", "TRANSPOSE")
    return True


@pred("Tensor dimensions must be in the range [1, 65535]")
def _dims(s):
    return all(1 <= d <= 65535 for t in s.data_tensors() for d in t["shape"])


@pred("Per-axis quantization is only supported for the following op types: CONV_2D, DEPTHWISE_CONV_2D, TRANSPOSE_CONV")
def _peraxis(s):
    if any(t["quant"] and t["quant"]["scale"] and len(t["quant"]["scale"]) > 1 for t in s.data_tensors()):
        return s.name in ("CONV_2D", "DEPTHWISE_CONV_2D", "TRANSPOSE_CONV")
    return True


@pred("IFM Tensor batch size must be 1")
def _batch(s):
    for t in s.ifms:
        if len(t["shape"]) == 4 and t["shape"][0] != 1:
            return False
        if len(t["shape"]) > 4:
            return None
    return True


@pred("The fused activation function (if present) must be one of type: LOGISTIC, RELU, RELU6, RELU_N1_TO_1, TANH")
def _faf(s):
    f = s.opts.get("FusedActivationFunction", 0)
    return f in (0, 1, 2, 3, 4)


@pred("If a fused activation function is present, the Output tensor must be one of type: int16, int8, uint8")
def _faf_type(s):
    f = s.opts.get("FusedActivationFunction", 0)
    return True if not f else s.ofm["dtype"] in ("int16", "int8", "uint8")


# shared specific -------------------------------------------------------------------------------
@pred("At least one Input's shape must match the OFM's shape")
def _either_shape(s):
    return any(t["shape"] == s.ofm["shape"] for t in s.ifms)


pred("IFM and OFM data types must match")(lambda s: s.ifm["dtype"] == s.ofm["dtype"])
pred("Both Input data types must match")(lambda s: s.ifm["dtype"] == s.ifm2["dtype"])
pred("For IFM that are signed, OFM must also be signed")(lambda s: True if not _signed(s.ifm["dtype"]) else _signed(s.ofm["dtype"]))
pred("For IFM that are unsigned, OFM must either be the same type or int32")(lambda s: True if _signed(s.ifm["dtype"]) else s.ofm["dtype"] in (s.ifm["dtype"], "int32"))
pred("IFM must be int8 or uint8")(lambda s: s.ifm["dtype"] in ("int8", "uint8"))
pred("IFM must be int8 or int16")(lambda s: s.ifm["dtype"] in ("int8", "int16"))
pred("IFM must be int8")(lambda s: s.ifm["dtype"] == "int8")
pred("OFM must be int32 or int64")(lambda s: s.ofm["dtype"] in ("int32", "int64"))
pred("Stride values for both width and height must be integer types")(lambda s: True)
pred("Kernel filter values for both width and height must be integer types")(lambda s: True)
pred("Dilation factor values for both width and height must be integer types")(lambda s: True)


@pred("Broadcasting is only allowed for rank indices with dimension 1, from either IFM1 or IFM2")
def _bcast(s):
    a, b, o = s.ifm["shape"], s.ifm2["shape"], s.ofm["shape"]
    n = min(len(a), len(b))
    if n == 0:
        return True
    for i, j, k in zip(a[-n:], b[-n:], o[-n:]):
        if i != j and i != 1 and j != 1:
            return False
        if k != max(i, j):
            return None
    return True


@pred("Both Input quantization parameters must match OFM quantization parameters")
def _minmax_q(s):
    def q(t):
        return (t["quant"]["scale"], t["quant"]["zp"]) if t["quant"] else None
    return all(q(t) == q(s.ofm) for t in s.ifms)


@pred("Strides must fulfil the following criteria: - Stride h must be between 1 and 3 when ofm height is greater than 1 - Stride w must be between 1 and 3 when ofm height is greater than 1 or stride w must be divisible by 2 or 3 and ifm width must be divisible by stride_w/2 or stride_w/3")
def _strides_conv(s):
    g = s.conv_geom()
    oh, ow = s.ofm["shape"][1], s.ofm["shape"][2]
    if 1 <= g["sh"] <= 3 and 1 <= g["sw"] <= 3:
        return True
    if g["sh"] < 1 or g["sw"] < 1:
        return False
    if g["sh"] > 3 and oh > 1:
        return False
    if g["sw"] > 3 and oh > 1 and ow > 1 and g["sw"] % 2 and g["sw"] % 3:
        return False
    return None


@pred("Stride width must be greater than or equal to 1. For stride width greater than 3, valid padding needs to be used.")
def _stride_nopad(s):
    g = s.conv_geom()
    if g["sw"] < 1:
        return False
    if g["sw"] > 3 and g["same"]:
        return False
    return True


@pred("Stride values for both width and height must be in the range [1, 3]")
def _stride13(s):
    g = s.conv_geom()
    return 1 <= g["sh"] <= 3 and 1 <= g["sw"] <= 3


P[norm("Stride values for both width and height must be between 1 and 3")] = _stride13


@pred("Kernel filter values for both width and height must be in the range [1, 8]")
def _filter18(s):
    g = s.conv_geom()
    return 1 <= g["kh"] <= 8 and 1 <= g["kw"] <= 8


@pred("SAME padding: Kernel filter values for both width and height must be in the range [1, 8]")
def _filter18_same(s):
    g = s.conv_geom()
    if not g["same"]:
        return True
    if 1 <= g["kh"] <= 8 and 1 <= g["kw"] <= 8:
        return True
    return None if g["kw"] == g["sw"] and 1 <= g["kh"] <= 8 else False


@pred("Kernel filter height must be in the range [1, 256]")
def _fh256(s):
    return 1 <= s.conv_geom()["kh"] <= 256


@pred("VALID padding: Kernel filter height must be in the range [1, 256]")
def _fh256v(s):
    g = s.conv_geom()
    return True if g["same"] else 1 <= g["kh"] <= 256


@pred("Product of kernel filter width and height must be in the range [1, 65536]")
def _fp(s):
    g = s.conv_geom()
    return 1 <= g["kh"] * g["kw"] <= 65536


@pred("VALID padding: Product of kernel filter width and height must be in the range [1, 65536]")
def _fpv(s):
    g = s.conv_geom()
    return True if g["same"] else 1 <= g["kh"] * g["kw"] <= 65536


@pred("Dilated kernel height must be in the range [1, 64]")
def _dkh(s):
    g = s.conv_geom()
    return 1 <= g["dh"] * (g["kh"] - 1) + 1 <= 64


@pred("Product of dilated kernel width and height must be in the range [1, 4096]")
def _dkp(s):
    g = s.conv_geom()
    return 1 <= (g["dh"] * (g["kh"] - 1) + 1) * (g["dw"] * (g["kw"] - 1) + 1) <= 4096


pred("Weight tensor must be 8-bit")(lambda s: s.weights["dtype"] in ("int8", "uint8"))
pred("Weight tensor must be constant")(lambda s: s.buffers[s.weights["buffer"]] is not None)


@pred("The sum of the weights cannot exceed 8323072")
def _wsum(s):
    v = s.values(s.weights)
    if v is None or s.weights["dtype"] not in ("int8", "uint8"):
        return None
    zp = (s.weights["quant"]["zp"] or [0])[0] if s.weights["quant"] else 0
    a = np.abs(v.astype(np.int64) - zp)
    # per output channel (the axis that is not reduced)
    if s.name == "DEPTHWISE_CONV_2D":
        sums = a.sum(axis=(0, 1, 2))
    else:
        sums = a.reshape(a.shape[0], -1).sum(axis=1)
    m = int(sums.max())
    if m <= 8323072:
        return True
    return False


pred("Optional Bias tensor must be of shape: 1D")(lambda s: True if s.bias is None else len(s.bias["shape"]) == 1)
pred("Optional Bias tensor must be of type: int32, int64")(lambda s: True if s.bias is None else s.bias["dtype"] in ("int32", "int64"))


@pred("Optional Bias tensor values must fit within 40-bits")
def _b40(s):
    if s.bias is None or s.bias["dtype"] != "int64":
        return True
    v = s.values(s.bias)
    if v is None:
        return True
    if all(-(1 << 39) <= int(x) < (1 << 39) for x in v.reshape(-1)):
        return True
    if any(abs(int(x)) >= (1 << 40) for x in v.reshape(-1)):
        return False
    return None


@pred("IFM depth must be a whole multiple of the filter kernel depth")
def _groups1(s):
    return s.ifm["shape"][-1] % s.weights["shape"][-1] == 0


@pred("Number of filter kernels must be equally divisible by the number of convolution groups")
def _groups2(s):
    if s.ifm["shape"][-1] % s.weights["shape"][-1]:
        return None
    return s.weights["shape"][0] % (s.ifm["shape"][-1] // s.weights["shape"][-1]) == 0


@pred("For depth multipliers > 1, IFM channels must be 1 and OFM channels must be equal to the depth multiplier")
def _dm(s):
    dm = s.opts.get("DepthMultiplier", 1)
    return True if dm <= 1 else (s.ifm["shape"][3] == 1 and s.ofm["shape"][3] == dm)


# transpose conv ----------------------------------------------------------------------------------
@pred("Stride values for width and height must match one of the following criteria: Stride values WxH must be 1x1 or 2x2 Stride WxH 2x1 supported if ifm height and kernel height = 1")
def _tc_stride(s):
    g = s.conv_geom()
    if (g["sw"], g["sh"]) in ((1, 1), (2, 2)):
        return True
    if (g["sw"], g["sh"]) == (2, 1):
        return s.ifm["shape"][1] == 1 and g["kh"] == 1
    return False


@pred("SAME padding: OFM dimensions must equal IFM dimensions multiplied by stride")
def _tc_same(s):
    g = s.conv_geom()
    if not g["same"]:
        return True
    return s.ofm["shape"][1] == s.ifm["shape"][1] * g["sh"] and s.ofm["shape"][2] == s.ifm["shape"][2] * g["sw"]


@pred("VALID padding: OFM dimensions must equal IFM dimensions multiplied by stride, minus difference between kernel size and stride")
def _tc_valid(s):
    g = s.conv_geom()
    if g["same"]:
        return True
    okh = s.ofm["shape"][1] == s.ifm["shape"][1] * g["sh"] + max(g["kh"] - g["sh"], 0)
    okw = s.ofm["shape"][2] == s.ifm["shape"][2] * g["sw"] + max(g["kw"] - g["sw"], 0)
    return True if okh and okw else None  # the sentence says "minus"; only the consistent TFLite shape is asserted


# fully connected -----------------------------------------------------------------------------------
pred("The output tensor(s) must have 2D shape")(lambda s: True if len(s.ofm["shape"]) == 2 else None)
pred("The IFM and OFM must have the same number of dimensions if keep_num_dims is set to true")(
    lambda s: True if not s.opts.get("KeepNumDims") else len(s.ifm["shape"]) == len(s.ofm["shape"]))

# softmax -------------------------------------------------------------------------------------------
pred("IFM and OFM shapes must match")(lambda s: s.ifm["shape"] == s.ofm["shape"])


@pred("Beta value needs to be positive")
def _beta(s):
    b = s.opts.get("Beta", 1.0)
    return True if b > 0 else (False if b < 0 else None)


# argmax ----------------------------------------------------------------------------------------------
@pred("Operation must be performed along the depth axis")
def _argmax_axis(s):
    v = s.values(s.param(1))
    if v is None:
        return None
    ax = int(v.reshape(-1)[0])
    return ax in (len(s.ifm["shape"]) - 1, -1)


pred("IFM depth must be no greater than 127")(lambda s: s.ifm["shape"][-1] <= 127)


# mean ------------------------------------------------------------------------------------------------
def _mean_axes(s):
    v = s.values(s.param(1))
    if v is None:
        return None
    r = len(s.ifm["shape"])
    return sorted({int(a) % r for a in v.reshape(-1)})


pred("Input tensor must be at least 2D")(lambda s: len(s.ifm["shape"]) >= 2)


@pred("Requirements for axis parameter: When IFM tensor is 2D: - Reduction in both axes is supported. When IFM tensor is 3D or 4D: - Reduction in Batch axis is only supported if batch size is 1. - Reduction in both Height and Width axes is supported. - Reduction in Depth axis is supported if at least one of H,W,C are of size 1.")
def _mean_axis(s):
    ax = _mean_axes(s)
    shp = s.ifm["shape"]
    r = len(shp)
    if ax is None:
        return None
    if r == 2:
        return True
    if r == 4:
        if 0 in ax and shp[0] != 1:
            return False
        if 3 in ax and not any(d == 1 for d in shp[1:]):
            return False
        return True
    if r == 3:
        if 2 in ax and not any(d == 1 for d in shp):
            return False
        return True
    return None


@pred("Product of reduced axes must be no greater than: - 16777216 for signed 8-bit inputs. - 8388608 for unsigned 8-bit inputs. - 65536 for signed 16-bit inputs.")
def _mean_prod(s):
    ax = _mean_axes(s)
    if ax is None:
        return None
    p = int(np.prod([s.ifm["shape"][a] for a in ax]))
    lim = {"int8": 1 << 24, "uint8": 1 << 23, "int16": 1 << 16}.get(s.ifm["dtype"])
    return None if lim is None else p <= lim


def _mean_hwc(s):
    shp = s.ifm["shape"]
    r = len(shp)
    # H, W, C indices of the tensor seen as NHWC
    return {4: (1, 2, 3), 3: (0, 1, 2), 2: (None, 0, 1)}.get(r, (None, None, None))


@pred("If Width axis is reduced its shape must be no greater than 4096.")
def _mean_w(s):
    ax = _mean_axes(s)
    h, w, c = _mean_hwc(s)
    if ax is None or w is None:
        return None
    if w not in ax:
        return True
    return s.ifm["shape"][w] <= 4096


@pred("If Depth axis is reduced its shape must be no greater than 4096.")
def _mean_c(s):
    ax = _mean_axes(s)
    h, w, c = _mean_hwc(s)
    if ax is None or c is None:
        return None
    if c not in ax:
        return True
    return s.ifm["shape"][c] <= 4096


# resize ----------------------------------------------------------------------------------------------
@pred("The width and height of the IFM and OFM must match one of the following criteria: IFM W and H must both be 1 IFM must match OFM W and H scaling must be equal and OFM W-1 and H-1 must be 2x/4x/8x IFM W-1 and H-1 (IFM W and H both greater than 1), if align_corners is True W and H scaling must be equal and OFM W and H must be 2x/4x/8x IFM W and H, if align_corners is False")
def _resize(s):
    if len(s.ifm["shape"]) != 4:
        return None
    ih, iw = s.ifm["shape"][1:3]
    oh, ow = s.ofm["shape"][1:3]
    if (ih == 1 and iw == 1) or (ih, iw) == (oh, ow):
        return True
    if s.opts.get("AlignCorners"):
        if ih == 1 or iw == 1:
            return False
        fh, fw = (oh - 1) / (ih - 1), (ow - 1) / (iw - 1)
    else:
        fh, fw = oh / ih, ow / iw
    return fh == fw and fh in (2.0, 4.0, 8.0)


@pred("The size tensor must match the output tensor shape")
def _resize_size(s):
    v = s.values(s.param(1))
    if v is None:
        return None
    return [int(x) for x in v.reshape(-1)] == s.ofm["shape"][1:3]


pred("Both align_corners and half_pixel_centers can't be True")(lambda s: not (s.opts.get("AlignCorners") and s.opts.get("HalfPixelCenters")))


@pred("For half_pixel_centers the width and height of the IFM and OFM must match one of the following criteria: IFM W and H are both 1 OFM W and H is 2x IFM W and H")
def _resize_hp(s):
    if not s.opts.get("HalfPixelCenters"):
        return True
    ih, iw = s.ifm["shape"][1:3]
    oh, ow = s.ofm["shape"][1:3]
    return (ih == 1 and iw == 1) or (oh == 2 * ih and ow == 2 * iw)


# reshape family ----------------------------------------------------------------------------------------
@pred("Input and output quantisation must match.")
def _q_match(s):
    a, b = s.ifm["quant"], s.ofm["quant"]
    if a is None or b is None:
        return None
    return (a["scale"], a["zp"]) == (b["scale"], b["zp"])


pred("Input and output number of elements must match.")(lambda s: int(np.prod(s.ifm["shape"])) == int(np.prod(s.ofm["shape"])))
pred("Shape must be constant")(lambda s: True if len(s.op["inputs"]) < 2 or s.param(1) is None else s.buffers[s.param(1)["buffer"]] is not None)

# concat -----------------------------------------------------------------------------------------------
pred("Axis attribute must exist")(lambda s: True)


@pred("Axis attribute must be in the range [0, <ofm_dimensions>)")
def _cc_axis(s):
    ax = s.opts.get("Axis", 0)
    r = len(s.ofm["shape"])
    if ax < 0:
        return None  # negative axes are normalised by TFLite; the sentence does not say
    return 0 <= ax < r


pred("All Input dimensionalities must match OFM dimensionality")(lambda s: all(len(t["shape"]) == len(s.ofm["shape"]) for t in s.ifms))


@pred("All Input dimensions must match OFM dimension in all axes except the one defined by the axis attribute")
def _cc_dims(s):
    ax = s.opts.get("Axis", 0) % max(1, len(s.ofm["shape"]))
    return all(all(d == o for i, (d, o) in enumerate(zip(t["shape"], s.ofm["shape"])) if i != ax) for t in s.ifms if len(t["shape"]) == len(s.ofm["shape"]))


@pred("The size of the OFM axis must match the sum of all IFM axis defined by the axis attribute")
def _cc_sum(s):
    ax = s.opts.get("Axis", 0) % max(1, len(s.ofm["shape"]))
    try:
        return sum(t["shape"][ax] for t in s.ifms) == s.ofm["shape"][ax]
    except IndexError:
        return None


# split ------------------------------------------------------------------------------------------------
@pred("Axis value must be in the range [-RANK(IFM) to +RANK(IFM))")
def _split_axis(s):
    v = s.values(s.param(0))
    if v is None:
        return None
    r = len(s.ifm["shape"])
    return -r <= int(v.reshape(-1)[0]) < r


@pred("Axis must be divisible by number of splits")
def _split_div(s):
    v = s.values(s.param(0))
    if v is None:
        return None
    r = len(s.ifm["shape"])
    ax = int(v.reshape(-1)[0])
    if not -r <= ax < r:
        return None
    return s.ifm["shape"][ax % r] % s.opts.get("NumSplits", 1) == 0


# strided slice ------------------------------------------------------------------------------------------
pred("Exactly 4 Input tensors are required")(lambda s: len(s.op["inputs"]) == 4)
pred("Begin, End and Stride Input tensors must be constant")(lambda s: all(s.buffers[s.param(i)["buffer"]] is not None for i in (1, 2, 3)))
pred("ellipsis_mask must be 0")(lambda s: s.opts.get("EllipsisMask", 0) == 0)
pred("new_axis_mask and shrink_axis_mask cannot both be set")(lambda s: not (s.opts.get("NewAxisMask", 0) and s.opts.get("ShrinkAxisMask", 0)))


@pred("Slice 'end' values must be greater than 'begin' values")
def _ss_range(s):
    b, e = s.values(s.param(1)), s.values(s.param(2))
    if b is None or e is None:
        return None
    bm, em, sm = s.opts.get("BeginMask", 0), s.opts.get("EndMask", 0), s.opts.get("ShrinkAxisMask", 0)
    shp = s.ifm["shape"]
    verdict = True
    for i, (x, y) in enumerate(zip(b.reshape(-1), e.reshape(-1))):
        x, y = int(x), int(y)
        if (bm >> i) & 1 or (em >> i) & 1 or (sm >> i) & 1 or x < 0 or y < 0:
            if not (0 <= x < y):
                verdict = None if verdict else verdict
            continue
        if not x < y:
            return False
    return verdict


@pred("All Strides values must be 1")
def _ss_strides(s):
    v = s.values(s.param(3))
    return None if v is None else all(int(x) == 1 for x in v.reshape(-1))


pred("Offset attribute must be False")(lambda s: not s.opts.get("Offset", False))
pred("Begin and Size Input tensors must be constant")(lambda s: all(s.buffers[s.param(i)["buffer"]] is not None for i in (1, 2)))

# pad ----------------------------------------------------------------------------------------------------
pred("Number of input tensors must be exactly 2")(lambda s: len(s.op["inputs"]) == 2)
pred("The padding tensor must be constant")(lambda s: s.buffers[s.param(1)["buffer"]] is not None)


@pred("Shape of output tensor must equal to size of input tensor plus padding")
def _pad_out(s):
    v = s.values(s.param(1))
    if v is None or v.ndim != 2 or v.shape[0] != len(s.ifm["shape"]):
        return None
    return [d + int(a) + int(b) for d, (a, b) in zip(s.ifm["shape"], v)] == s.ofm["shape"]


pred("The padding tensor must have the shape [3,2] or [4,2]")(lambda s: s.param(1)["shape"] in ([3, 2], [4, 2]))
pred("Pad tensor must be of type: int32, int64")(lambda s: s.param(1)["dtype"] in ("int32", "int64"))


@pred("The pad tensor can only pad width and height")
def _pad_hw(s):
    v = s.values(s.param(1))
    if v is None or v.ndim != 2:
        return None
    ok = int(v[-1].sum()) == 0
    if ok and v.shape[0] > 3:
        ok = int(v[0].sum()) == 0
    return ok


# transpose -------------------------------------------------------------------------------------------------
@pred("Permutation array must be a 1D tensor with RANK(IFM) elements")
def _tp_size(s):
    p = s.param(1)
    return len(p["shape"]) == 1 and p["shape"][0] == len(s.ifm["shape"])


@pred("Permutation array must have constant values in the range [0, RANK(IFM))")
def _tp_vals(s):
    v = s.values(s.param(1))
    if v is None:
        return False
    return all(0 <= int(x) < len(s.ifm["shape"]) for x in v.reshape(-1))


@pred("The following shape/permutations are supported for transpose: When ifm rank is 2: WxC -> CxW When ifm rank is 3: HxWxC -> WxHxC, 1xWxC -> 1xCxW, Hx1xC -> Cx1xH When ifm rank is 4: 1xHxWxC -> 1xWxHxC, 1x1xWxC -> 1x1xCxW, 1xHx1xC -> 1xCx1xW")
def _tp_supported(s):
    v = s.values(s.param(1))
    if v is None:
        return None
    perm = [int(x) for x in v.reshape(-1)]
    shp = s.ifm["shape"]
    r = len(shp)
    if r == 2:
        return True if perm == [1, 0] else None
    if r == 3:
        if perm == [1, 0, 2]:
            return True
        if perm == [0, 2, 1] and shp[0] == 1:
            return True
        if perm == [2, 1, 0] and shp[1] == 1:
            return True
        return False if perm != [0, 1, 2] else None
    if r == 4:
        if shp[0] != 1:
            return None
        if perm == [0, 2, 1, 3]:
            return True
        if perm == [0, 1, 3, 2] and shp[1] == 1:
            return True
        if perm == [0, 3, 2, 1] and shp[2] == 1:
            return True
        return False if perm != [0, 1, 2, 3] else None
    return None


pred("Only one size is allowed to be inferred")(lambda s: None)


def evaluate(texts, subj):
    """-> (verdicts: [(text, True|False|None)], unknown texts)"""
    out = []
    unknown = []
    for t in texts:
        f = P.get(t)
        if f is None:
            unknown.append(t)
            out.append((t, None))
            continue
        try:
            v = f(subj)
        except Exception:
            v = None
        out.append((t, v if v is None else bool(v)))
    return out, unknown
