"""C15 - every block configuration used or offered is valid for the hardware.

(1) api.npu_find_block_configs over an op lattice x 6 accelerators: every offered configuration is given to the real
    generator, must be accepted, and the decoded block / SHRAM registers must satisfy the pinned shared-buffer oracle (A4).
(2) the block configuration Vela selects for emitted operations: every kernel op of every stream of the network sweep."""
import itertools

from .. import core, netrun
from ..isolate import pmap
from ..npu import decode as D
from ..npu import isa, oplists
from ..ref import shram

ACCS = list(isa.ACCELERATORS)


def op_lattice(tier):
    """concrete op specs (block left to the query)."""
    X, Y, Z = 0x0, 0x8000, 0x10000
    L = []
    shapes = [(1, 1, 8), (3, 3, 3), (8, 8, 16), (9, 33, 17), (16, 16, 40), (1, 64, 8)] if tier == "quick" else \
        [(h, w, c) for h in (1, 2, 3, 8, 9, 33) for w in (1, 8, 33) for c in (1, 3, 8, 16, 17, 64, 130)]
    kernels = [(1, 1, 1, 1), (3, 3, 1, 1), (3, 3, 2, 2), (5, 2, 1, 1), (7, 7, 2, 1)] if tier == "quick" else \
        [(kw, kh, s, s) for kw, kh in ((1, 1), (3, 3), (2, 5), (7, 7), (9, 1), (1, 8), (8, 8)) for s in (1, 2, 3)]
    kernels = [k + (1, 1) for k in kernels]
    # dilated kernels (dx, dy), symmetric and both asymmetric forms: the IFM block must cover the DILATED kernel in each axis
    kernels += [(3, 3, 1, 1, 2, 2), (3, 3, 1, 1, 1, 2), (3, 3, 1, 1, 2, 1), (2, 5, 1, 1, 1, 2)] if tier == "quick" else \
        [(kw, kh, s, s, dx, dy) for kw, kh in ((3, 3), (2, 5), (5, 2), (7, 7)) for s in (1, 2) for dx, dy in ((2, 2), (1, 2), (2, 1))]
    # one-row feature maps with kernel height 1 and a vertical stride above 1 (the 1-D convolution block optimisation meets a stride that
    # makes the IFM block taller than the OFM block)
    oned = [(1, 64, 8), (1, 33, 16)]
    for (oh, ow, oc) in oned:
        for (kw, kh, sx, sy) in ((3, 1, 2, 2), (2, 1, 2, 2), (3, 1, 1, 2), (3, 1, 3, 3)):
            ih, iw = (oh - 1) * sy + kh, (ow - 1) * sx + kw
            for dt in ("i8", "i16"):
                for trav in ("DEPTH_FIRST", "PART_KERNEL_FIRST"):
                    s1 = oplists.conv_spec(X, Y, k=(kw, kh), s=(sx, sy), pad=(0, 0, 0, 0), hw=(ih, iw), cin=8, cout=oc, dt=dt, trav=trav)
                    s1["block"] = None
                    L.append(s1)
                d1 = oplists.conv_spec(X, Y, k=(kw, kh), s=(sx, sy), pad=(0, 0, 0, 0), hw=(ih, iw), cin=oc, cout=oc, dt=dt)
                d1["kind"] = "depthwise"
                d1.pop("traversal", None)
                d1["block"] = None
                L.append(d1)
                p1 = oplists.pool_spec("MAX", X, Y, k=(kw, kh), s=(sx, sy), hw=(ih, iw), c=oc, dt=dt)
                p1["block"] = None
                L.append(p1)
    for (oh, ow, oc) in shapes:
        for (kw, kh, sx, sy, dx, dy) in kernels:
            ih, iw = (oh - 1) * sy + (kh - 1) * dy + 1, (ow - 1) * sx + (kw - 1) * dx + 1
            if ih > 300 or iw > 300:
                continue
            for dt in ("i8", "i16"):
                for cin in (8, 24) if tier == "quick" else (1, 8, 16, 24, 40):
                    for trav in ("DEPTH_FIRST", "PART_KERNEL_FIRST"):
                        s = oplists.conv_spec(X, Y, k=(kw, kh), s=(sx, sy), pad=(0, 0, 0, 0), hw=(ih, iw), cin=cin, cout=oc, dt=dt, trav=trav, dil=(dx, dy))
                        s["block"] = None
                        L.append(s)
                d = oplists.conv_spec(X, Y, k=(kw, kh), s=(sx, sy), pad=(0, 0, 0, 0), hw=(ih, iw), cin=oc, cout=oc, dt=dt, dil=(dx, dy))
                d["kind"] = "depthwise"
                d.pop("traversal", None)
                d["block"] = None
                L.append(d)
                for sub in (("MAX", "AVERAGE") if (dx, dy) == (1, 1) else ()):
                    for act in (None, oplists.LUT_ACT):
                        p = oplists.pool_spec(sub, X, Y, k=(kw, kh), s=(sx, sy), hw=(ih, iw), c=oc, dt=dt, act=act)
                        p["block"] = None
                        L.append(p)
        for dt in ("i8", "i16", "i32"):
            for sub, scalar, bshape in (("ADD", None, None), ("MUL", 2.0, None), ("ABS", None, None), ("SUB", None, (1, 1, oc)), ("MIN", None, None), ("ADD", 0.0, None), ("MAX", 0.0, None), ("MUL", -1.0, None)):
                if dt == "i32" and sub in ("ABS",):
                    continue
                for act in (None, oplists.LUT_ACT):
                    if act and dt == "i32":
                        continue
                    e = oplists.ew_spec(sub, X, Y, Z, hw=(oh, ow), c=oc, scalar=scalar, dt=dt, bshape=bshape, act=act)
                    e["block"] = None
                    L.append(e)
        for up in ("NEAREST",):
            p = oplists.pool_spec("AVERAGE", X, Y, k=(1, 1), s=(1, 1), hw=(max(oh // 2, 1), max(ow // 2, 1)), c=oc, upscale=up)
            p["ofm"] = oplists.fm((max(oh // 2, 1) * 2, max(ow // 2, 1) * 2, oc), Y)
            p["block"] = None
            L.append(p)
    return L


def _check_stream_op(acc, op):
    if op.kind == "dma":
        return []
    f = D.ifm_of(op)
    ofm = D.ofm_of(op)
    return shram.check_registers(acc, op.kind, op.sub, op.r, f.bits, op.r("IFM_DEPTH_M1") + 1, (ofm.height, ofm.width))


def _api_shard(args):
    acc, specs, cap = args
    core.bind_repo(need_codec=False)
    from ethosu.vela import api
    from ethosu.vela.errors import VelaError

    ae = oplists.acc_enum(api, acc)
    stats = dict(ops=0, offered=0, generated=0, none_offered=0)
    bad = []
    for spec in specs:
        stats["ops"] += 1
        s = dict(spec, block=[2, 2, 8])
        try:
            op = oplists.build_op(api, s, ae)
            cfgs = api.npu_find_block_configs(op, ae)
        except AssertionError:
            # the query found no configuration that fits (it asserts instead of returning an empty list): nothing is offered, so the
            # property - which speaks about the configurations that ARE offered - has nothing to judge
            stats["none_offered"] += 1
            continue
        except Exception as e:
            bad.append((acc, spec, None, "query raised %s: %s" % (type(e).__name__, str(e)[:100])))
            continue
        if not cfgs:
            stats["none_offered"] += 1
            continue
        stats["offered"] += len(cfgs)
        if cap and len(cfgs) > cap:
            step = len(cfgs) / cap
            cfgs = [cfgs[int(i * step)] for i in range(cap)] + [cfgs[-1]]
        for c in cfgs:
            blk = [int(c.height), int(c.width), int(c.depth)]
            op.block_config = c
            try:
                words = api.npu_generate_register_command_stream([op], ae)
            except (VelaError, AssertionError) as e:
                bad.append((acc, spec, blk, "offered block config rejected by the generator: %s %s" % (type(e).__name__, str(e)[:100])))
                continue
            stats["generated"] += 1
            hw, problems = D.decode(words)
            if problems or len(hw) != 1:
                bad.append((acc, spec, blk, "stream does not decode: %s" % problems))
                continue
            h = hw[0]
            got = [h.r("OFM_BLK_HEIGHT_M1") + 1, h.r("OFM_BLK_WIDTH_M1") + 1, h.r("OFM_BLK_DEPTH_M1") + 1]
            if got != blk:
                bad.append((acc, spec, blk, "block registers %s differ from the offered config" % got))
            for t in _check_stream_op(acc, h):
                bad.append((acc, spec, blk, t))
        if len(bad) > 40:
            break
    return stats, bad[:40]


def net_oracle(case, rec, an, streams, mb):
    viol = []
    stats = dict(kernel_ops=0)
    acc = case["cfg"].get("acc", "ethos-u65-256")
    for si, s in enumerate(streams):
        for oi, op in enumerate(s.ops):
            if op.kind == "dma":
                continue
            stats["kernel_ops"] += 1
            for t in _check_stream_op(acc, op):
                viol.append(("%s/%s|%s" % (op.kind, op.sub, t.split(" smaller")[0].split("[")[0][:40]), "%s op %d of stream %d: %s" % (op.kind, oi, si, t)))
    return viol, stats


def _key(key, name):
    steps = name.split(">", 1)[1].split(" @")[0] if ">" in name else name
    acc = name.split("@")[1].split("/")[0] if "@" in name else ""
    return "net|%s|%s|steps=%s" % (acc, key, steps)


def replay(ctx, case):
    if case.get("api"):
        stats, bad = _api_shard((case["acc"], [case["spec"]], 0))
        return [b[3] for b in bad if b[2] == case.get("blk") or case.get("blk") is None]
    return netrun.replay_case(net_oracle, case)


def run(ctx):
    core.bind_repo(need_codec=False)
    specs = op_lattice(ctx.tier)
    cap = 12 if ctx.tier == "quick" else 0
    shards = []
    for acc in ACCS:
        for i in range(0, len(specs), 24):
            shards.append((acc, specs[i:i + 24], cap))
    for stats, bad in pmap(_api_shard, shards):
        ctx.merge_counters({"api_" + k: v for k, v in stats.items()})
        for acc, spec, blk, what in bad:
            kind = spec["kind"] + "/" + str(spec.get("sub"))
            key = "api|%s|%s|%s|%s" % (acc, kind, spec["ifm"]["dt"], what.split(":")[0].split("[")[0][:50])
            ctx.violation(key, "%s %s block %s on %s: %s" % (kind, spec["ofm"]["shape"], blk, acc, what), dict(api=True, acc=acc, spec=spec, blk=blk))
    c = ctx.counters
    return netrun.run(
        ctx, net_oracle, "exploration",
        rule="(1) %d op specs x 6 accelerators through api.npu_find_block_configs: %s offered configuration(s) generated and decoded; (2) every kernel op of every emitted stream" % (
            len(specs), "every" if not cap else "up to %d evenly spaced + last" % cap),
        assumptions=["pinned bank counts, granules and micro-blocks (vfw/npu/isa.py); IFM block derived from the OFM block by A1 with the 8x8 sub-kernel limit"],
        nontrivial_stat="kernel_ops", key_fn=_key,
        extra_cov=dict(evaluations=c.get("api_generated", 0), distinct_nontrivial=c.get("api_generated", 0), api_ops=c.get("api_ops", 0), api_offered=c.get("api_offered", 0)))
