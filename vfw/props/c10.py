"""C10 - splitting an operator into stripes does not change what it computes.

(1) unit, exhaustive: Box.transform_with_strides_and_skirt for every OFM row interval of every (H, kernel, stride, dilation,
    padding) of a small lattice against the receptive-field model A1.
(2) every stripe of every emitted stream (network sweep + FORCED schedules at every stripe height): OFM boxes of an operator
    partition its write region; the pads and IFM start handed to the hardware equal the receptive field of the stripe's OFM box.
(3) rolling buffers tall enough: the tag machine (C03) on the forced schedules."""
import collections

from .. import core, forced, netrun
from ..isolate import pmap
from ..npu import decode as D
from . import c03


# ---- (1) unit -----------------------------------------------------------------------------------------
def _unit_shard(args):
    Hs, kmax = args
    core.bind_repo(need_codec=False)
    from ethosu.vela.high_level_command_stream import Box
    from ethosu.vela.operation import Kernel, NpuBlockType, Padding
    from ethosu.vela.shape4d import Shape4D
    from ethosu.vela.tflite_graph_optimiser import calc_padding_and_skirt

    def out_h(H, k, s, d, ptype, expl):
        dk = d * (k - 1) + 1
        if ptype == Padding.SAME:
            return -(-H // s)
        if ptype == Padding.VALID:
            return (H - dk) // s + 1 if H >= dk else 0
        t, b = expl
        return (H + t + b - dk) // s + 1 if H + t + b >= dk else 0

    n = 0
    bad = []
    W = 6
    # channel range of a depth slice: one-to-one for depthwise / pooling / elementwise, the whole IFM depth for dot products and sums
    for H in Hs:
        for bt, whole, Cin in ((NpuBlockType.ConvolutionDepthWise, False, 40), (NpuBlockType.Pooling, False, 40), (NpuBlockType.ElementWise, False, 40),
                               (NpuBlockType.ConvolutionMxN, True, 40), (NpuBlockType.VectorProduct, True, 40), (NpuBlockType.ReduceSum, True, 40)):
            kern = Kernel(1, 1, 1, 1, 1, 1)
            pad, skirt = calc_padding_and_skirt(Padding.VALID, kern, Shape4D([1, H, W, Cin]), None)
            for split in (None, [0, 0, 0, 8]):
                for c0 in range(0, 24, 8):
                    for c1 in range(c0 + 8, 25, 8):
                        box = Box([0, 0, 0, c0], [1, H, W, c1])
                        ifm_shape = Shape4D([1, H, W, Cin])
                        ib, _, _ = box.transform_with_strides_and_skirt([1, 1, 1, 1], skirt, ifm_shape, bt, [0, 0, 0, 0], 1, Shape4D(split) if split else None,
                                                                        Shape4D([1, H, W, Cin - 8]) if split else None)
                        off = 8 if split else 0
                        exp = (off, Cin) if whole else (c0 + off, c1 + off)
                        got = (int(ib.start_coord[3]), int(ib.end_coord[3]))
                        n += 1
                        if got != exp:
                            bad.append(("channels|%s|%s" % (bt.name, "split" if split else "plain"), dict(H=H, chan=True, bt=bt.name, c0=c0, c1=c1, split=bool(split)), got, exp))
    # 2x upscaling (RESIZE lowered to a 1x1 pooling operation on the upscaled map), alone and behind a fused split / slice read along the
    # channels or the rows: the OFM rows [y0, y1) (cut at even rows, as the scheduler does) come from the IFM rows [y0/2, y1/2) of the slice
    for H in Hs if kmax else ():
        kern = Kernel(1, 1, 1, 1, 1, 1)
        for split, sshape in ((None, None), ([0, 0, 0, 8], [1, H, W, 8]), ([0, 1, 0, 0], [1, H, W, 16])):
            full = Shape4D([1, H + (1 if split and split[1] else 0) + (1 if split and split[1] else 0), W, 16])
            for y0 in range(0, 2 * H, 2):
                for y1 in range(y0 + 2, 2 * H + 1, 2):
                    box = Box([0, y0, 0, 0], [1, y1, 2 * W, 8 if split and split[3] else 16])
                    off = split[1] if split else 0
                    exp = (y0 // 2 + off, y1 // 2 + off)
                    n += 1
                    try:
                        ib, ptop, pbot = box.transform_with_strides_and_skirt([1, 1, 1, 1], [0, 0, 0, 0], full, NpuBlockType.Pooling, [0, 0, 0, 0], 1,
                                                                              Shape4D(split) if split else None, Shape4D(sshape) if split else None, 2)
                    except AssertionError:
                        # the Box constructor refuses an interval whose end lies before its start
                        bad.append(("upscale2|%s" % ("plain" if not split else ("channel-slice" if split[3] else "row-slice")),
                                    dict(H=H, up=True, y0=y0, y1=y1, split=split), ("empty or reversed IFM interval",), exp + (0, 0)))
                        continue
                    got = (int(ib.start_coord[1]), int(ib.end_coord[1]))
                    if got != exp or int(ptop) or int(pbot):
                        bad.append(("upscale2|%s" % ("plain" if not split else ("channel-slice" if split[3] else "row-slice")),
                                    dict(H=H, up=True, y0=y0, y1=y1, split=split), got + (int(ptop), int(pbot)), exp + (0, 0)))
    for H in Hs:
        for k in range(1, kmax + 1):
            for s in (1, 2, 3):
                for d in (1, 2):
                    dk = d * (k - 1) + 1
                    pads = [(Padding.SAME, None), (Padding.VALID, None)] + [(Padding.EXPLICIT, (t, b)) for t in range(0, min(k, 3)) for b in range(0, min(k, 3))]
                    for ptype, expl in pads:
                        Ho = out_h(H, k, s, d, ptype, expl)
                        if Ho <= 0:
                            continue
                        kern = Kernel(1, k, 1, s, 1, d)
                        pad, skirt = calc_padding_and_skirt(ptype, kern, Shape4D([1, H, W, 8]), None if expl is None else (expl[0], 0, expl[1], 0))
                        pt = pad[0]
                        for y0 in range(Ho):
                            for y1 in range(y0 + 1, Ho + 1):
                                if y0 == 0 and y1 == Ho:
                                    continue
                                box = Box([0, y0, 0, 0], [1, y1, W, 8])
                                ib, ptop, pbot = box.transform_with_strides_and_skirt([1, s, 1, 1], skirt, Shape4D([1, H, W, 8]), NpuBlockType.ConvolutionDepthWise, [0, 0, 0, 0], dk)
                                first = y0 * s - pt
                                last = (y1 - 1) * s - pt + dk - 1
                                r0, r1 = max(first, 0), min(last, H - 1)
                                eptop, epbot = max(0, -first), max(0, last - (H - 1))
                                g0, g1 = int(ib.start_coord[1]), int(ib.end_coord[1]) - 1
                                n += 1
                                tags = []
                                if g0 != r0:
                                    tags.append("start")
                                if g1 < r1:
                                    tags.append("end_short")
                                if g1 > H - 1:
                                    tags.append("end_outside")
                                if int(ptop) != eptop:
                                    tags.append("pad_top")
                                if int(pbot) != epbot:
                                    tags.append("pad_bottom")
                                if tags:
                                    cls = "%s|%s|%s" % (str(ptype).split(".")[-1], "+".join(tags), "ofm-taller-than-ifm" if Ho > H else "")
                                    bad.append((cls, dict(H=H, k=k, s=s, d=d, pad=str(ptype).split(".")[-1], expl=expl, y0=y0, y1=y1), (g0, g1, int(ptop), int(pbot)), (r0, r1, eptop, epbot)))
    return n, bad[:200], len(bad)


# ---- (2) stripes of emitted streams ---------------------------------------------------------------------
def receptive(c, op, axis):
    """A1 for one axis (1 = rows, 2 = cols): (IFM start in tensor coordinates, pad_lo, pad_hi, first, last) for the stripe's
    OFM box.  An operator fused with a split/slice reads the slice [read_offset, read_offset + read_shape) of its input
    tensor: padding applies at the borders of the slice, and the offset is added after scaling by the stride."""
    k = c["kernel"]
    kk, s, dil = (k["h"], k["sy"], k["dy"]) if axis == 1 else (k["w"], k["sx"], k["dx"])
    dk = dil * (kk - 1) + 1
    pt = c["explicit_padding"][0 if axis == 1 else 1]
    wo = (c["write_offset"] or [0, 0, 0, 0])[axis]
    y0, y1 = c["ofm_box"]["start"][axis] - wo, c["ofm_box"]["end"][axis] - wo
    up = 2 if "NONE" not in c["upscale"] else 1
    ro = c["read_offsets"][0]
    rs = c["read_shapes"][0]
    off = ro[axis] if ro is not None else 0
    extent = (rs[axis] if (ro is not None and rs is not None) else c["ifm_view"][axis]) * up
    first = y0 * s - pt
    last = (y1 - 1) * s - pt + dk - 1
    start = off + max(first, 0) // up
    pad_lo = max(0, -first)
    pad_hi = max(0, last - (extent - 1))
    return start, pad_lo, pad_hi, first, last


def stripe_oracle(streams, rec):
    viol = []
    stats = dict(stripes=0, striped_ops=0, cascaded_stripes=0, pads_checked=0, partitions_checked=0)
    if not rec.get("sideband"):
        return viol, stats
    sb = {tuple(s["words"]): s for s in rec["sideband"].subgraphs}
    for si, s in enumerate(streams):
        side = sb.get(tuple(s.words))
        if side is None or s.problems:
            continue
        cmds = [c for c in side["cmds"] if c["kind"] != "nop"]
        if len(cmds) != len(s.ops):
            continue
        per_op = collections.defaultdict(list)
        for i, (c, op) in enumerate(zip(cmds, s.ops)):
            if c["kind"] != "stripe":
                continue
            stats["stripes"] += 1
            per_op[(c["ps"], c["ofm"]["eq"])].append((i, c, op))
            if c["ofm"]["sub"] != "Standard" or c["ifm"]["sub"] != "Standard":
                stats["cascaded_stripes"] += 1
            # register image vs OFM box
            o = D.ofm_of(op)
            size = [c["ofm_box"]["end"][j] - c["ofm_box"]["start"][j] for j in (1, 2, 3)]
            if [o.height, o.width, o.depth] != size:
                viol.append(("ofm-extent|%s" % c["op"], "stripe %d of %s: OFM registers %s, OFM box %s" % (i, c["name"], [o.height, o.width, o.depth], size)))
            if c["block_type"] in ("VectorProduct",) or c["explicit_padding"] is None or "TRANSPOSE" in c["upscale"] or c["padding_type"] == "Padding.TILE":
                continue
            if netrun.geometry_mismatch(s, i):
                continue  # known defect family, reported by C02/C03 under its root cause
            # channel range of the stripe (depth slices): one-to-one for depthwise / pooling, the whole (read range of the) IFM depth for dot products
            if c["block_type"] in ("ConvolutionDepthWise", "Pooling", "ConvolutionMxN") and op.sub != "REDUCE_SUM":
                ro_, rs_ = c["read_offsets"][0], c["read_shapes"][0]
                coff = ro_[3] if ro_ is not None else 0
                wo_ = (c["write_offset"] or [0, 0, 0, 0])[3]
                if c["block_type"] == "ConvolutionMxN":
                    cexp = (coff, coff + (rs_[3] if (ro_ is not None and rs_ is not None) else c["ifm_view"][3]))
                else:
                    cexp = (c["ofm_box"]["start"][3] - wo_ + coff, c["ofm_box"]["end"][3] - wo_ + coff)
                cgot = (c["ifm_box"]["start"][3], c["ifm_box"]["end"][3])
                stats["channel_ranges_checked"] = stats.get("channel_ranges_checked", 0) + 1
                if cgot != cexp:
                    viol.append(("ifm-channels|%s" % c["op"], "stripe %d of %s (OFM box %s): IFM box spans channels %s, the operator needs %s" % (i, c["name"], c["ofm_box"], cgot, cexp)))
                elif op.r("IFM_DEPTH_M1") + 1 != cexp[1] - cexp[0]:
                    viol.append(("ifm-depth-register|%s" % c["op"], "stripe %d of %s (OFM box %s): IFM_DEPTH register %d, the operator needs channels %s" % (i, c["name"], c["ofm_box"], op.r("IFM_DEPTH_M1") + 1, cexp)))
            if op.kind == "elementwise":
                continue
            stats["pads_checked"] += 1
            for axis, lo_reg, hi_reg, nm in ((1, "IFM_PAD_TOP", "IFM_PAD_BOTTOM", "rows"), (2, "IFM_PAD_LEFT", "IFM_PAD_RIGHT", "cols")):
                start, pad_lo, pad_hi, first, last = receptive(c, op, axis)
                g_lo, g_hi = op.r(lo_reg), op.r(hi_reg)
                if (g_lo, g_hi) != (pad_lo, pad_hi):
                    viol.append(("padding|%s|%s" % (c["op"], nm), "stripe %d of %s (OFM box %s): %s padding handed to the hardware (%d,%d), receptive field needs (%d,%d) [kernel %s, total padding %s]" % (
                        i, c["name"], c["ofm_box"], nm, g_lo, g_hi, pad_lo, pad_hi, c["kernel"], c["explicit_padding"])))
                if c["ifm_box"]["start"][axis] != start:
                    viol.append(("ifm-start|%s|%s" % (c["op"], nm), "stripe %d of %s (OFM box %s): IFM box starts at %s %d, receptive field starts at %d" % (
                        i, c["name"], c["ofm_box"], nm, c["ifm_box"]["start"][axis], start)))
        # partition
        for (psid, eq), lst in per_op.items():
            if len(lst) > 1:
                stats["striped_ops"] += 1
            stats["partitions_checked"] += 1
            c0 = lst[0][1]
            boxes = [(tuple(c["ofm_box"]["start"][1:]), tuple(c["ofm_box"]["end"][1:])) for _, c, _ in lst]
            vol = sum((e[0] - b[0]) * (e[1] - b[1]) * (e[2] - b[2]) for b, e in boxes)
            lo = tuple(min(b[j] for b, e in boxes) for j in range(3))
            hi = tuple(max(e[j] for b, e in boxes) for j in range(3))
            bvol = (hi[0] - lo[0]) * (hi[1] - lo[1]) * (hi[2] - lo[2])
            overlap = False
            for a in range(len(boxes)):
                for b in range(a):
                    if all(boxes[a][0][j] < boxes[b][1][j] and boxes[b][0][j] < boxes[a][1][j] for j in range(3)):
                        overlap = True
            wo = c0["write_offset"] or [0, 0, 0, 0]
            ws = c0["write_shape"] or c0["ofm_view"]
            exp_lo = tuple(wo[1:])
            exp_hi = tuple(wo[j] + ws[j] for j in (1, 2, 3))
            if overlap:
                viol.append(("partition-overlap|%s" % c0["op"], "stripes of %s overlap: %s" % (c0["name"], boxes[:6])))
            elif vol != bvol or (lo, hi) != (exp_lo, exp_hi):
                viol.append(("partition-gap|%s" % c0["op"], "stripes of %s cover %s..%s (volume %d) but the operator writes %s..%s" % (c0["name"], lo, hi, vol, exp_lo, exp_hi)))
    return viol, stats


def oracle(case, rec, an, streams, mb):
    viol, stats = stripe_oracle(streams, rec)
    if case.get("forced") or stats.get("cascaded_stripes"):
        # rolling buffers tall enough: decided by the tag machine on every schedule that has a cascade (forced or chosen)
        v3, s3 = c03.run_tag_machine(case, rec, an, streams)
        # a stream holding a geometrically inconsistent op (known defect family, reported by C02/C03 under its root cause)
        # fetches garbage through that op; its stray reads say nothing about rolling buffers
        if not any(netrun.geometry_mismatch(s, oi) for s in streams for oi in range(len(s.ops))):
            viol += [("rolling|" + k, w) for k, w in v3]
        stats["tag_bytes_checked"] = s3.get("bytes_checked", 0)
        stats["tag_rolling_reads"] = s3.get("rolling_reads", 0)
    return viol, stats


def _key(key, name):
    steps = name.split(">", 1)[1].split(" @")[0] if ">" in name else name
    k = key.split("|stream-op")[0]
    return "%s|steps=%s%s" % (k, steps, "|forced" if "forced-stripe" in name else "")


def replay(ctx, case):
    if case.get("unit"):
        n, bad, nb = _unit_shard(([case["p"]["H"]], 8 if not case["p"].get("chan") else 0))
        if case["p"].get("up"):
            return [str(b) for b in bad if b[1].get("up") and (b[1]["y0"], b[1]["y1"], b[1]["split"]) == (case["p"]["y0"], case["p"]["y1"], case["p"]["split"])]
        return [str(b) for b in bad if b[1] == case["p"]]
    return netrun.replay_case(oracle, case)


def run(ctx):
    core.bind_repo(need_codec=False)
    quick = ctx.tier == "quick"
    Hmax, kmax = (10, 6) if quick else (16, 8)
    total = 0
    classes = {}
    for n, bad, nb in pmap(_unit_shard, [([H], kmax) for H in range(1, Hmax + 1)]):
        total += n
        for cls, p, got, exp in bad:
            if cls not in classes:
                classes[cls] = (p, got, exp)
    for cls, (p, got, exp) in sorted(classes.items()):
        ctx.violation("unit|" + cls, "transform_with_strides_and_skirt %s: returned (start,end,pad_top,pad_bottom)=%s, receptive field %s" % (p, got, exp), dict(unit=True, p=p))
    ctx.count("unit_intervals", total)
    extra = forced.forced_cases(ctx.tier)
    return netrun.run(
        ctx, oracle, "exploration",
        rule="(1) %d OFM row intervals (H<=%d, k<=%d, stride 1..3, dilation 1..2, SAME/VALID/EXPLICIT) through the real box transform; (2) every stripe of every stream of the network sweep and of "
             "%d forced-schedule compilations (chains x {U55-128 shared SRAM, U65-256 dedicated SRAM} x every final stripe height): partition + padding + IFM start; (3) tag machine on the forced schedules" % (total, Hmax, kmax, len(extra)),
        assumptions=["receptive field per DESIGN.md A1 (IFM end is 'covers, stays inside'); TRANSPOSE upscaling and TILE padding stripes are not judged for padding",
                     "forced schedules bypass only the scheduler's cost comparison (vfw/forced.py); a violation found only there is reported with the |forced qualifier"],
        nontrivial_stat="striped_ops", key_fn=_key, extra_cases=extra,
        extra_cov=dict(evaluations=total, unit_intervals=total))
