"""C18 - system configuration and memory mode resolve as documented.

Model checking in the 'model + conformance' form: the resolver model (vfw/ref/config.py, written from OPTIONS.md) and the
real ArchitectureFeatures are run on EVERY .ini file of a generated space (inheritance structures x option placements x
selections x CLI overrides); every generated file is a trace validated against the implementation.  The command-line path
(config name lookup, working directory, CLI default) is explored through vela.main() in forked children."""
import itertools
import os
import shutil
import tempfile

from .. import core, isolate
from ..isolate import pmap
from ..ref import config as M

STRUCTS = {
    "chain": {2: 1, 1: 0},
    "direct": {2: 0},
    "flat": {},
    "self": {2: 2},
    "self_mid": {2: 1, 1: 1},
    "missing": {2: 9},
}
PLACEMENTS = [(), (0,), (1,), (2,), (0, 2), (1, 2), (0, 1), (0, 1, 2)]

SYS_VALUES = {
    "core_clock": ["100e6", "200e6", "500e6"],
    "axi0_port": ["Sram", "Sram", "Sram"],
    "axi1_port": ["OffChipFlash", "Dram", "OnChipFlash"],
    "MEM": [("Sram_clock_scale", "0.5"), ("Sram_burst_length", "32"), ("OffChipFlash_read_latency", "64"), ("Dram_write_latency", "250"), ("OnChipFlash_clock_scale", "0.25")],
}
MEM_VALUES = {
    "const_mem_area": ["Axi1", "Axi0", "Axi1"],
    "arena_mem_area": ["Axi0", "Axi1", "Axi0"],
    "cache_mem_area": ["Axi0", "Axi0", "Axi1"],
    "arena_cache_size": ["100000", "-1", "2000000"],
}


def ini_text(sections):
    out = []
    for name, opts in sections.items():
        out.append("[%s]" % name)
        for k, v in opts.items():
            out.append("%s=%s" % (k, v))
        out.append("")
    return "\n".join(out)


def sys_cases():
    for sname, inh in STRUCTS.items():
        for pc, p0, p1, pm in itertools.product(PLACEMENTS, PLACEMENTS[:6], PLACEMENTS[:6], PLACEMENTS[:5]):
            secs = {}
            for i in range(3):
                o = {}
                if i in inh:
                    o["inherit"] = "System_Config.S%d" % inh[i]
                if i in pc:
                    o["core_clock"] = SYS_VALUES["core_clock"][i]
                if i in p0:
                    o["axi0_port"] = SYS_VALUES["axi0_port"][i]
                if i in p1:
                    o["axi1_port"] = SYS_VALUES["axi1_port"][i]
                if i in pm:
                    for k, v in SYS_VALUES["MEM"]:
                        o[k] = str(float(v) * (i + 1)) if "." in v else str(int(v) * (i + 1))
                secs["System_Config.S%d" % i] = o
            secs["Memory_Mode.M"] = dict(const_mem_area="Axi1", arena_mem_area="Axi0", cache_mem_area="Axi0")
            yield dict(space="sys", struct=sname, sections=secs, system_config="S2", memory_mode="M")


def mem_cases(clis):
    for sname, inh in STRUCTS.items():
        for pk, pa, pcache, ps in itertools.product(PLACEMENTS[:6], PLACEMENTS[:6], PLACEMENTS[:5], PLACEMENTS):
            secs = {"System_Config.S": dict(core_clock="500e6", axi0_port="Sram", axi1_port="OffChipFlash", Sram_clock_scale="1.0")}
            for i in range(3):
                o = {}
                if i in inh:
                    o["inherit"] = "Memory_Mode.M%d" % inh[i]
                if i in pk:
                    o["const_mem_area"] = MEM_VALUES["const_mem_area"][i]
                if i in pa:
                    o["arena_mem_area"] = MEM_VALUES["arena_mem_area"][i]
                if i in pcache:
                    o["cache_mem_area"] = MEM_VALUES["cache_mem_area"][i]
                if i in ps:
                    o["arena_cache_size"] = MEM_VALUES["arena_cache_size"][i]
                secs["Memory_Mode.M%d" % i] = o
            for cli in clis:
                yield dict(space="mem", struct=sname, sections=secs, system_config="S", memory_mode="M2", cli=cli)


def select_cases():
    """selection of sections: each existing one, an unknown one, enum errors."""
    base = {"System_Config.A": dict(core_clock="1e6", axi0_port="Sram", axi1_port="Dram"),
            "System_Config.B": dict(inherit="System_Config.A", core_clock="2e6"),
            "Memory_Mode.P": dict(const_mem_area="Axi1", arena_mem_area="Axi0", cache_mem_area="Axi0", arena_cache_size="4096"),
            "Memory_Mode.Q": dict(inherit="Memory_Mode.P", arena_mem_area="Axi1")}
    for sc in ("A", "B", "Nope", "a"):
        for mm in ("P", "Q", "Nope"):
            for cli in (None, 0, 1, 1 << 40, (1 << 40) + 1, -1):
                yield dict(space="select", struct="-", sections=base, system_config=sc, memory_mode=mm, cli=cli)
    # one of the two selections left at internal-default (documented to map to the example file's Client-Server / High-End-Embedded systems and
    # Dedicated_Sram / Shared_Sram memory modes); the file's other section may or may not be compatible with it
    for axi1 in ("Dram", "OffChipFlash", "OnChipFlash", "Sram"):
        secs = dict(base)
        secs["System_Config.A"] = dict(core_clock="1e6", axi0_port="Sram", axi1_port=axi1, Sram_clock_scale="0.5", Dram_read_latency="77")
        for cli in (None, 0, 4096):
            yield dict(space="select", struct="default-mem|axi1=%s" % axi1, sections=secs, system_config="A", memory_mode="internal-default", cli=cli)
            yield dict(space="select", struct="default-mem|inherited-axi1=%s" % axi1, sections=secs, system_config="B", memory_mode="internal-default", cli=cli)
    for mm in ("P", "Q"):
        for cli in (None, 4096):
            yield dict(space="select", struct="default-sys", sections=base, system_config="internal-default", memory_mode=mm, cli=cli)
    yield dict(space="select", struct="default-both", sections=base, system_config="internal-default", memory_mode="internal-default", cli=None)
    bad = dict(base)
    bad["System_Config.A"] = dict(core_clock="1e6", axi0_port="Sram", axi1_port="Flash")
    yield dict(space="select", struct="bad-enum", sections=bad, system_config="A", memory_mode="P", cli=None)
    bad2 = dict(base)
    bad2["Memory_Mode.P"] = dict(const_mem_area="Axi2", arena_mem_area="Axi0", cache_mem_area="Axi0")
    yield dict(space="select", struct="bad-port", sections=bad2, system_config="A", memory_mode="P", cli=None)


def port_cases():
    """the complete mapping lattice: every pair of memories on the two ports x every assignment of the three areas to a port (flat sections and
    the areas split over a parent and a child), so that every legal and every illegal area mapping occurs - also two areas sharing a port that the
    system connects to a memory which is legal for only one of them."""
    areas = ("Sram", "Dram", "OnChipFlash", "OffChipFlash")
    for a0, a1 in itertools.product(areas, areas):
        for k, a, c in itertools.product(("Axi0", "Axi1"), repeat=3):
            secs = {"System_Config.S": dict(core_clock="500e6", axi0_port=a0, axi1_port=a1),
                    "Memory_Mode.M": dict(const_mem_area=k, arena_mem_area=a, cache_mem_area=c)}
            yield dict(space="ports", struct="flat|%s,%s|%s%s%s" % (a0, a1, k[-1], a[-1], c[-1]), sections=secs, system_config="S", memory_mode="M", cli=None)
            secs = {"System_Config.S": dict(core_clock="500e6", axi0_port=a0, axi1_port=a1),
                    "Memory_Mode.P": dict(const_mem_area=k, arena_mem_area=a, cache_mem_area="Axi0" if c == "Axi1" else "Axi1"),
                    "Memory_Mode.M": dict(inherit="Memory_Mode.P", cache_mem_area=c)}
            yield dict(space="ports", struct="child-cache|%s,%s|%s%s%s" % (a0, a1, k[-1], a[-1], c[-1]), sections=secs, system_config="S", memory_mode="M", cli=4096)


def impl_resolve(path, acc, system_config, memory_mode, cli):
    from ethosu.vela.architecture_features import ArchitectureFeatures
    from ethosu.vela.tensor import BandwidthDirection, MemArea

    a = ArchitectureFeatures(vela_config_files=[path], accelerator_config=acc, system_config=system_config, memory_mode=memory_mode,
                             max_blockdep=3, verbose_config=False, arena_cache_size=cli)
    r = dict(core_clock=float(a.core_clock), axi0_port=a.axi0_port.name, axi1_port=a.axi1_port.name, const_mem_area=a.const_mem_area.name,
             arena_mem_area=a.arena_mem_area.name, cache_mem_area=a.cache_mem_area.name, arena_cache_size=int(a.arena_cache_size))
    areas = {"Sram": MemArea.Sram, "Dram": MemArea.Dram, "OnChipFlash": MemArea.OnChipFlash, "OffChipFlash": MemArea.OffChipFlash}
    r["clock"] = {k: float(a.memory_clock_scales[v]) for k, v in areas.items()}
    r["burst"] = {k: int(a.memory_burst_length[v]) for k, v in areas.items()}
    r["rlat"] = {k: int(a.memory_latency[v][BandwidthDirection.Read]) for k, v in areas.items()}
    r["wlat"] = {k: int(a.memory_latency[v][BandwidthDirection.Write]) for k, v in areas.items()}
    return r


def compare(case, acc, path):
    """Returns None or a description of the disagreement."""
    cli = case.get("cli")
    try:
        exp = M.resolve(case["sections"], acc, case["system_config"], case["memory_mode"], cli, default_sys=M.documented_default_sys(acc), default_mem=M.documented_default_mem(acc))
        exp_err = None
    except M.ConfigError as e:
        exp, exp_err = None, str(e)
    try:
        got = impl_resolve(path, acc, case["system_config"], case["memory_mode"], cli)
        got_err = None
    except RecursionError:
        got, got_err = None, "RecursionError"
    except Exception as e:
        got, got_err = None, "%s" % type(e).__name__
    if exp_err is not None:
        if got_err is None:
            return "accepted", "invalid configuration accepted (documented rules give an error: %s); resolved to %s" % (exp_err, {k: got[k] for k in list(got)[:7]})
        return None
    if got_err is not None:
        return "rejected", "valid configuration rejected with %s; documented rules give %s" % (got_err, {k: exp[k] for k in list(exp)[:7]})
    for k in ("core_clock", "axi0_port", "axi1_port", "const_mem_area", "arena_mem_area", "cache_mem_area", "arena_cache_size", "clock", "burst", "rlat", "wlat"):
        if got[k] != exp[k]:
            return "differs:" + k, "%s resolved to %s, documented rules give %s" % (k, got[k], exp[k])
    return None


def _shard(args):
    cases, accs = args
    core.bind_repo(need_codec=False)
    d = tempfile.mkdtemp(prefix="vfw-c18-")
    devnull = os.open(os.devnull, os.O_WRONLY)
    saved = os.dup(1)
    os.dup2(devnull, 1)
    bad = []
    n = 0
    try:
        path = os.path.join(d, "cfg.ini")
        for case in cases:
            with open(path, "w") as f:
                f.write(ini_text(case["sections"]))
            for acc in accs:
                n += 1
                r = compare(case, acc, path)
                if r:
                    bad.append((case, acc, r[0], r[1]))
            if len(bad) > 60:
                break
    finally:
        os.dup2(saved, 1)
        os.close(saved)
        os.close(devnull)
        shutil.rmtree(d, ignore_errors=True)
    return n, bad


# ---- command line path -----------------------------------------------------------------------
OTHER_INI = """[System_Config.Ethos_U55_High_End_Embedded]
core_clock=123e6
axi0_port=Sram
axi1_port=OffChipFlash
[Memory_Mode.Shared_Sram]
const_mem_area=Axi1
arena_mem_area=Axi0
cache_mem_area=Axi0
arena_cache_size=7777
[Memory_Mode.Dedicated_Sram_512KB]
const_mem_area=Axi1
arena_mem_area=Axi1
cache_mem_area=Axi0
arena_cache_size=1111
"""


def _main_child(case):
    """runs vela.main with --verbose-config on a one-op network from a chosen cwd; returns the printed resolution."""
    import re

    from ..tfl import build, nets
    from ethosu.vela import vela

    d = tempfile.mkdtemp(prefix="vfw-c18m-")
    try:
        src = os.path.join(d, "net.tflite")
        open(src, "wb").write(build.serialise(nets.build(dict(start=([1, 8, 8, 8], "int8"), steps=["relu"]), 0)))
        cwd = case["cwd"]
        if cwd == "decoy":
            cwd = os.path.join(d, "decoy")
            os.makedirs(os.path.join(cwd, "Arm"))
            open(os.path.join(cwd, "Arm", "vela.ini"), "w").write(OTHER_INI)
        cfg = case["config"]
        if cfg == "ABS":
            cfg = os.path.join(core.REPO, "ethosu", "config_files", "Arm", "vela.ini")
        elif cfg in ("USERABS", "USERREL"):
            # the user's own file, whose last two path components equal those of the bundled Arm/vela.ini
            proj = os.path.join(d, "work", "proj")
            os.makedirs(os.path.join(proj, "Arm"))
            open(os.path.join(proj, "Arm", "vela.ini"), "w").write(OTHER_INI)
            cfg = os.path.join(proj, "Arm", "vela.ini")
            if case["config"] == "USERREL":
                if cwd in ("/",) or not os.path.isdir(cwd):
                    cwd = os.path.join(d, "work")
                cfg = os.path.relpath(cfg, cwd)
        args = [src, "--output-dir", os.path.join(d, "out"), "--accelerator-config", case["acc"]] + (["--config", cfg] if cfg is not None else [])
        args += (["--system-config", case["sys"]] if case["sys"] is not None else []) + (["--memory-mode", case["mem"]] if case["mem"] is not None else [])
        args += ["--verbose-config"] + case.get("extra", [])
        os.chdir(cwd)
        import contextlib
        import io

        status = vela.main(args)
        return dict(status=status, written=os.path.isdir(os.path.join(d, "out")) and any(f.endswith(".tflite") for f in os.listdir(os.path.join(d, "out"))))
    finally:
        os.chdir("/")
        shutil.rmtree(d, ignore_errors=True)


def main_cases():
    out = []
    for acc, sysc in (("ethos-u55-128", "Ethos_U55_High_End_Embedded"), ("ethos-u65-256", "Ethos_U65_High_End")):
        for cwd in (core.REPO, "/", "decoy"):
            for cfg in ("Arm/vela.ini", "ABS"):
                for mem, file_size in (("Shared_Sram", None), ("Dedicated_Sram_512KB", 524288), ("Dedicated_Sram", 393216)):
                    if "u55" in acc and mem.startswith("Dedicated"):
                        continue
                    for extra, cli in (([], None), (["--arena-cache-size", "65536"], 65536), (["--arena-cache-size", "0"], 0)):
                        out.append(dict(acc=acc, sys=sysc, cwd=cwd, config=cfg, mem=mem, extra=extra, file_size=file_size, cli=cli))
    for cwd in (core.REPO, "/"):
        for cfg in ("USERABS", "USERREL"):
            for extra, cli in (([], None), (["--arena-cache-size", "65536"], 65536)):
                out.append(dict(acc="ethos-u55-128", sys="Ethos_U55_High_End_Embedded", cwd=cwd, config=cfg, mem="Shared_Sram", extra=extra, file_size=7777, cli=cli, clock=123e6))
    # named sections exist only in configuration files: a name given without --config (from any cwd, also one that holds an Arm/vela.ini) selects
    # nothing and has to be rejected - never silently replaced by the built-in defaults
    for acc, sysc, mem in (("ethos-u55-128", "Ethos_U55_High_End_Embedded", "Shared_Sram"), ("ethos-u65-256", "Ethos_U65_High_End", "Dedicated_Sram")):
        for cwd in (core.REPO, "decoy"):
            for s_, m_ in ((sysc, mem), (sysc, None), (None, mem), (sysc, "internal-default"), ("internal-default", mem)):
                out.append(dict(acc=acc, sys=s_, cwd=cwd, config=None, mem=m_, extra=[], file_size=None, cli=None, expect_reject=True))
    return out


def judge_main(case, res, text):
    import re

    if res[0] != "ok":
        return "main-crash", "vela.main raised/died: %s" % (res[:3],)
    if case.get("expect_reject"):
        if res[1]["status"] == 0 or res[1].get("written"):
            return "main-named-without-file", "--system-config %s --memory-mode %s without --config: no file defines these sections, yet the compilation returned %s and %s an output network" % (
                case["sys"], case["mem"], res[1]["status"], "wrote" if res[1].get("written") else "did not write")
        return None
    if res[1]["status"] != 0:
        return "main-rejected", "bundled configuration %s not usable from cwd=%s (status %s): %s" % (case["config"], case["cwd"], res[1]["status"], text.strip().splitlines()[-1][:160] if text.strip() else "")
    m = re.search(r"arena_cache_size = (-?\d+) from (.*)", text)
    c = re.search(r"core_clock = ([0-9.e+]+)", text)
    if not m or not c:
        return "main-noverbose", "no --verbose-config output"
    size, src = int(m.group(1)), m.group(2).strip()
    clock = float(c.group(1))
    exp_clock = case.get("clock") or (500e6 if "u55" in case["acc"] else 1e9)
    if abs(clock - exp_clock) > 1:
        return "main-wrong-file", "core_clock %s (expected %s): a file other than the one named by --config %s was read (cwd=%s)" % (clock, exp_clock, case["config"], case["cwd"])
    max_off = (1 << 40) if "u65" in case["acc"] else (1 << 32)
    exp_size = case["cli"] if case["cli"] is not None else (case["file_size"] if case["file_size"] is not None else max_off)
    if size != exp_size:
        return "main-arena-size", "arena_cache_size resolved to %d from '%s'; documented rules give %d (%s)" % (
            size, src, exp_size, "command line" if case["cli"] is not None else ("file value" if case["file_size"] is not None else "default"))
    return None


def _main_shard(cases):
    core.bind_repo()
    out = []
    for case in cases:
        res, text = isolate.run_forked(_main_child, (case,), timeout=120)
        j = judge_main(case, res, text)
        out.append((case, j))
    return out


def replay(ctx, case):
    if case.get("space") == "main":
        out = _main_shard([case["case"]])
        return [out[0][1][1]] if out[0][1] else []
    n, bad = _shard(([case["case"]], [case["acc"]]))
    return [b[3] for b in bad]


def run(ctx):
    core.bind_repo(need_codec=False)
    quick = ctx.tier == "quick"
    accs = ["ethos-u55-128", "ethos-u65-256"]
    clis = [None, 0, 65536] if quick else [None, 0, 65536, 1 << 41]
    cases = list(sys_cases()) + list(mem_cases(clis)) + list(select_cases()) + list(port_cases())
    shards = [(cases[i:i + 400], accs) for i in range(0, len(cases), 400)]
    total = 0
    for n, bad in pmap(_shard, shards):
        total += n
        for case, acc, kind, what in bad:
            key = "%s|%s|%s|%s" % (case["space"], case["struct"], kind, acc if kind.startswith("differs:arena") else "")
            ctx.violation(key, "%s [%s on %s, system=%s memory=%s cli=%s]\n%s" % (what, case["struct"], acc, case["system_config"], case["memory_mode"], case.get("cli"), ini_text(case["sections"])[:600]),
                          dict(case=case, acc=acc))
    ctx.count("files_resolved", total)
    mc = main_cases()
    nmain = 0
    for out in pmap(_main_shard, [mc[i:i + 6] for i in range(0, len(mc), 6)]):
        for case, j in out:
            nmain += 1
            if j:
                key = "main|%s|config=%s|cwd=%s|mem=%s|cli=%s" % (j[0], case["config"], "repo" if case["cwd"] == core.REPO else case["cwd"], case["mem"] if j[0] == "main-arena-size" else "-", "given" if case["cli"] is not None else "absent")
                ctx.violation(key, j[1] + "  [%s]" % case, dict(space="main", case=case))
    cov = dict(
        states=len(cases),
        transitions=total + nmain,
        traces_validated_against_impl=total + nmain,
        samples=[dict(ini=ini_text(cases[len(cases) // 2]["sections"]), system_config=cases[len(cases) // 2]["system_config"], memory_mode=cases[len(cases) // 2]["memory_mode"])],
        exhaustive=True,
        rule="every .ini file of the generated space (6 inheritance structures x placements of each option over a 3-level chain x selections x CLI sizes %s; plus the complete lattice of 16 port-to-memory pairs x 8 area-to-port assignments, flat and with the cache set in a child section) is resolved by the model and by the real ArchitectureFeatures on 2 accelerators; "
             "%d command-line cases (config name x cwd x memory mode x CLI size) through vela.main()" % (clis, len(mc)),
        evaluations=total + nmain, distinct_nontrivial=len(cases),
    )
    return ctx.finish("model_checking", cov, ["resolution rules R1-R9 as written in DESIGN.md A5 from OPTIONS.md; any exception counts as 'rejected with an error' for invalid files (exception type is C13's concern)",
                                             "inheritance cycles longer than self-inheritance are outside the statement and not generated"])
