"""C09 - quantised multipliers reproduce the real scale to reference precision.

The real functions of ethosu.vela.scaling are run on complete finite sub-domains (all 2^23 float32 mantissas at chosen
exponents; all 2046 float64 exponents x a mantissa lattice; all window sizes; all accumulators of small windows;
a lattice of scale triples) and judged by exact integer / rational arithmetic."""
import math
import struct
from fractions import Fraction as Fr

import numpy as np

from .. import core
from ..isolate import pmap


def f32(bits):
    return np.frombuffer(struct.pack("<I", bits), dtype=np.float32)[0]


def ref_qm(s):
    """TFLite QuantizeMultiplier on an exact rational: returns (m, shift) with value m * 2^-shift, m in [2^30, 2^31)."""
    s = Fr(s)
    e = 0
    q = s
    while q >= 1:
        q /= 2
        e += 1
    while q < Fr(1, 2):
        q *= 2
        e -= 1
    x = q * (1 << 31)
    m = int(x + Fr(1, 2))  # round half away (positive)
    if m == 1 << 31:
        m //= 2
        e += 1
    return m, 31 - e


LO = Fr(1, 1 << 33)  # smallest scale with a canonical form: 2^30 * 2^-63


def judge_full(s_exact, got):
    """quantise_scale on exact scale s (Fraction > 0).  Hardware range = scales whose canonical form (significand in
    [2^30, 2^31), shift in [0,63]) exists: 2^-33 <= s < 2^31.  In range: the pair must denote exactly what the reference
    derivation denotes (m may be 2^31 after rounding up), relative error <= 2^-31.  Out of range: zero multiplier, or -
    where the correctly rounded value is itself representable - that value."""
    m, sh = got
    em, esh = ref_qm(s_exact)
    ref_val = Fr(em, 1 << esh) if esh >= 0 else Fr(em * (1 << -esh))
    in_range = LO <= s_exact < (1 << 31)
    tags = []
    if m == 0:
        if in_range:
            tags.append("zero_in_range")
        return tags
    if not (1 << 30) <= m <= (1 << 31):
        tags.append("mult_range")
    if not 0 <= sh <= 63:
        tags.append("shift_range")
        return tags
    val = Fr(m, 1 << sh)
    if val != ref_val:
        tags.append("differs_from_reference" if in_range else "nonzero_out_of_range")
    elif abs(val - s_exact) * (1 << 31) > s_exact:
        tags.append("precision")
    return tags


def judge_reduced(s_exact, got):
    """reduced (int16) form: multiplier in [2^14, 2^15], shift in [0,47], relative error <= 2^-14; range 2^-33 <= s < 2^15."""
    m, sh = got
    in_range = LO <= s_exact < (1 << 15)
    tags = []
    if m == 0:
        if in_range:
            tags.append("zero_in_range")
        return tags
    if not (1 << 14) <= m <= (1 << 15):
        tags.append("mult_range")
    if not 0 <= sh <= 47:
        tags.append("shift_range(shift=%d)" % sh)
        return tags
    val = Fr(m, 1 << sh)
    if abs(val - s_exact) * (1 << 14) > s_exact:
        tags.append("precision" if in_range else "nonzero_out_of_range")
    return tags


def _mantissa_shard(args):
    """all mantissas [lo,hi) at float32 exponent field E through the real functions; exact integer oracle."""
    E, lo, hi, as_float = args
    core.bind_repo(need_codec=False)
    from ethosu.vela import scaling

    bad = []
    n = 0
    bits = (np.arange(lo, hi, dtype=np.uint32) | np.uint32(E << 23))
    vals = bits.view(np.float32)
    unb = E - 127  # value = (1 + mant/2^23) * 2^unb ; frexp exponent e = unb + 1
    esh = 31 - (unb + 1)
    in_range_full = 0 <= esh < 64
    in_range_red = 16 <= esh < 64
    qs, rqs = scaling.quantise_scale, scaling.reduced_quantise_scale
    for i in range(len(vals)):
        v = float(vals[i]) if as_float else vals[i]
        mant = lo + i
        em = ((1 << 23) + mant) << 7
        m, sh = qs(v)
        n += 1
        if in_range_full:
            if (m, sh) != (em, esh):
                bad.append(("quantise_scale", E, mant, as_float, (int(m), int(sh)), (em, esh)))
        elif m != 0:
            bad.append(("quantise_scale", E, mant, as_float, (int(m), int(sh)), "zero"))
        rm, rsh = rqs(v)
        n += 1
        if in_range_red:
            erm = min((em + (1 << 15)) >> 16, 32767)
            # value check: |rm*2^-rsh - s| / s <= 2^-14
            ok = (1 << 14) <= rm <= (1 << 15) and 0 <= rsh <= 47 and rsh == esh - 16 and abs(rm * (1 << 16) - em) * (1 << 14) <= em
            if not ok:
                bad.append(("reduced_quantise_scale", E, mant, as_float, (int(rm), int(rsh)), (erm, esh - 16)))
        elif rm != 0:
            bad.append(("reduced_quantise_scale", E, mant, as_float, (int(rm), int(rsh)), "zero"))
        if len(bad) > 20:
            break
    return n, bad


def _f64_shard(args):
    e_lo, e_hi = args
    core.bind_repo(need_codec=False)
    from ethosu.vela import scaling

    mants = [0, 1, 2, (1 << 52) - 1, (1 << 52) - 2, 1 << 51, (1 << 51) - 1, (1 << 51) + 1, 0x123456789ABCD, (1 << 52) - (1 << 21), (1 << 52) - (1 << 20), (1 << 52) - (1 << 20) - 1]
    mants += [(1 << k) for k in range(3, 51, 4)] + [(1 << 52) - (1 << k) for k in range(1, 51, 4)]
    bad = []
    n = 0
    for e in range(e_lo, e_hi):
        for mant in mants:
            v = struct.unpack("<d", struct.pack("<Q", (e << 52) | mant))[0]
            exact = Fr(v)
            for conv in (float, np.float64):
                n += 2
                t = judge_full(exact, scaling.quantise_scale(conv(v)))
                if t:
                    bad.append(("quantise_scale", "f64", e, mant, conv.__name__, t))
                t = judge_reduced(exact, scaling.reduced_quantise_scale(conv(v)))
                if t:
                    bad.append(("reduced_quantise_scale", "f64", e, mant, conv.__name__, t))
    return n, bad


def _pool_shard(args):
    lo, hi, acc_upto8, acc_upto16 = args
    core.bind_repo(need_codec=False)
    from ethosu.vela import scaling

    bad = []
    n = 0
    for k in range(lo, hi):
        try:
            scale, shift = scaling.quantise_pooling_scale(k)
        except AssertionError:
            bad.append(("pooling", k, "assertion"))
            continue
        n += 1
        if not (0 <= shift < 64 and 0 < scale < (1 << 32)):
            bad.append(("pooling", k, "range", int(scale), int(shift)))
            continue
        for bits, upto in ((8, acc_upto8), (16, acc_upto16)):
            if k > upto:
                continue
            lo_a, hi_a = -(1 << (bits - 1)) * k, ((1 << bits) - 1) * k
            acc = np.arange(lo_a, hi_a + 1, dtype=object if bits == 16 and k * scale > (1 << 62) else np.int64)
            if acc.dtype == object:
                got = np.array([(int(a) * scale + (1 << (shift - 1))) >> shift for a in acc], dtype=np.int64)
                acc = acc.astype(np.int64)
            else:
                # scale < 2^32 and |acc| < 2^21: the product fits int64
                got = (acc * np.int64(scale) + (np.int64(1) << np.int64(shift - 1))) >> np.int64(shift)
            # round-half-up on the magnitude (negative ties away from zero, as the TFLite reference kernel; see DESIGN.md C09)
            exp = np.sign(acc) * ((2 * np.abs(acc) + k) // (2 * k))
            n += len(acc)
            w = np.nonzero(got != exp)[0]
            if len(w):
                i = int(w[0])
                bad.append(("pooling", k, "acc=%d -> %d, round-half-up gives %d (%d-bit window)" % (int(acc[i]), int(got[i]), int(exp[i]), bits)))
    return n, bad


def _ew_cases():
    base = [2.0 ** e for e in range(-12, 3, 2)]
    vals = []
    for b in base:
        vals += [b, b * (1 + 2.0 ** -20), b * (1 - 2.0 ** -21), b * 1.7, b * 0.3]
    return sorted(set(vals))


def _ew_shard(args):
    s1_list = args
    core.bind_repo(need_codec=False)
    from ethosu.vela import scaling

    vals = _ew_cases()
    bad = []
    n = 0
    tol = Fr(1, 1 << 30)

    def denotes(m, sh, exact, what, key):
        if exact <= 0:
            return
        em, esh = ref_qm(exact)
        if not (0 <= esh < 64):
            if m != 0:
                bad.append((what, key, "nonzero out of range"))
            return
        if m == 0:
            bad.append((what, key, "zero in range"))
            return
        val = Fr(m, 1 << sh) if sh >= 0 else Fr(m * (1 << -sh))
        if abs(val - exact) > exact * tol:
            bad.append((what, key, "denotes %s, reference %s" % (float(val), float(exact))))

    for s1 in s1_list:
        for s2 in vals:
            for so in vals:
                key = (s1, s2, so)
                e1, e2, eo = Fr(s1), Fr(s2), Fr(so)
                n += 3
                m, sh = scaling.elementwise_mul_scale(s1, s2, so)
                denotes(m, sh, Fr(float(s1) * float(s2) / float(so)), "mul", key)
                for bitdepth, in_shift in ((8, 20), (16, 15)):
                    im, ish, om, osh, which = scaling.advanced_elementwise_add_sub_scale(s1, s2, so, bitdepth)
                    mx, mn = max(e1, e2), min(e1, e2)
                    # reference: real_input_multiplier(of the smaller-scale operand) * 2^left_shift, real_output_multiplier
                    denotes(im, ish, Fr(float(min(s1, s2)) * (1 << in_shift) / (2 * float(max(s1, s2)))), "add_in_%d" % bitdepth, key)
                    denotes(om, osh, Fr((2 * float(max(s1, s2))) / (float(so) * (1 << in_shift))), "add_out_%d" % bitdepth, key)
                    exp_which = 1 if s1 < s2 else 2
                    if int(which) != exp_which:
                        bad.append(("add_operand_%d" % bitdepth, key, "scales operand %s, smaller-scale operand is %d" % (which, exp_which)))
                if len(bad) > 20:
                    return n, bad
    return n, bad


def _ewmix_shard(s1_list):
    """call histories of depth 2 over the operand precision: Vela asks elementwise_mul_scale for one scale triple in float32 arithmetic (the command
    stream generator, as the TFLite kernel: float product and quotient) and in double (table lowerings, LSTM).  Each answer must be the reference
    derivation IN THE ARITHMETIC OF ITS OPERANDS whichever of the two was asked first in the process; quantise_scale likewise for a value given as
    np.float32 / float / np.float64."""
    core.bind_repo(need_codec=False)
    from ethosu.vela import scaling

    vals = [float(np.float32(v)) for v in _ew_cases()] + [1.0]
    bad = []
    n = 0
    tol = Fr(1, 1 << 30)

    def ref(s1, s2, so, single):
        if single:
            return Fr(float((np.float32(s1) * np.float32(s2)) / np.float32(so)))
        return Fr(float(s1) * float(s2) / float(so))

    def judge(m, sh, exact, key, what):
        em, esh = ref_qm(exact)
        if not (0 <= esh < 64):
            return
        val = Fr(int(m), 1 << int(sh)) if sh >= 0 else Fr(int(m) * (1 << -int(sh)))
        if abs(val - exact) > exact * tol:
            bad.append((what, key, "returned (%d, %d) = %.12g, reference derivation in that arithmetic gives %.12g (relative error 2^%.1f)" % (
                m, sh, float(val), float(exact), math.log2(float(abs(val - exact) / exact)))))

    i = 0
    for s1 in s1_list:
        s1 = float(np.float32(s1))
        for s2 in vals:
            for so in vals:
                i += 1
                first_single = i % 2 == 0
                for single in (first_single, not first_single):
                    conv = np.float32 if single else np.float64
                    # the second operand is also given as the Python int 1 where it is one (as the table lowerings do)
                    a2 = 1 if (s2 == 1.0 and not single) else conv(s2)
                    m, sh = scaling.elementwise_mul_scale(conv(s1), a2, conv(so))
                    n += 1
                    judge(m, sh, ref(s1, s2, so, single), (s1, s2, so), "mul|%s-after-%s" % ("f32" if single else "f64", "nothing" if single == first_single else ("f32" if first_single else "f64")))
                if len(bad) > 10:
                    return n, bad
    return n, bad


def _ewreg_cases():
    """(sub-op, data type, s1, s2, so): equal, one float32 ulp apart, almost equal, clearly different input scales"""
    out = []
    for dt, s1 in (("i8", 0.0235), ("u8", 0.0235), ("i16", 3.0518e-05), ("i16", 0.00015), ("i8", 0.5)):
        b = np.float32(s1)
        near = [float(b), float(np.nextafter(b, np.float32(1))), float(np.nextafter(b, np.float32(0))), float(b * np.float32(1 + 1e-6)), float(b * np.float32(1 + 5e-6)),
                float(b * np.float32(1 - 8e-6)), float(b * np.float32(1 + 1e-4)), float(b * np.float32(1.5)), float(b * np.float32(0.5)), float(b * np.float32(2.0))]
        for s2 in near:
            for so in (float(b), float(b * np.float32(2.0)), float(b * np.float32(1.37))):
                for sub in ("ADD", "SUB"):
                    out.append((sub, dt, float(b), s2, so))
    return out


def _ewreg_shard(cases):
    """ADD/SUB through the real generator; the effective weight of each operand (from OPA/OPB/OFM scale registers and the operand-to-scale
    field) must equal s1/so and s2/so to reference precision"""
    core.bind_repo(need_codec=False)
    from ethosu.vela import api

    from ..npu import decode as D
    from ..npu import oplists

    bad = []
    n = 0
    for (sub, dt, s1, s2, so) in cases:
        # reversed operand order: the hardware's operand A is then IFM2, so the operand that is rescaled has to be chosen the other way round
        for acc, rev in (("ethos-u55-128", False), ("ethos-u55-128", True)):
            ae = oplists.acc_enum(api, acc)
            spec = oplists.ew_spec(sub, 0x0000, 0x4000, 0x8000, hw=(8, 8), c=16, dt=dt, reversed_=rev)
            spec["ifm"]["scale"], spec["ifm2"]["scale"], spec["ofm"]["scale"] = s1, s2, so
            if dt == "u8":
                for k in ("ifm", "ifm2", "ofm"):
                    spec[k]["zp"] = 128
            try:
                op = oplists.build_op(api, spec, ae)
                words = api.npu_generate_register_command_stream([op], ae)
            except Exception as e:  # noqa
                bad.append(((sub, dt, s1, s2, so), "generator raised %s: %s" % (type(e).__name__, str(e)[:80])))
                continue
            hw, pr = D.decode(words)
            if pr or len(hw) != 1:
                continue
            r = hw[0]
            n += 1
            opa, opa_sh = r.r("OPA_SCALE", (0, 0))
            opb, _ = r.r("OPB_SCALE", (0, 0))
            ofm, ofm_sh = r.r("OFM_SCALE", (0, 0))
            mode = (r.r("IFM_PRECISION") >> 8) & 3
            bits = 16 if dt == "i16" else 8
            unscaled = Fr(1 << ((20 if bits == 8 else 15) - 1))
            o = Fr(ofm, 1 << ofm_sh)
            if mode == 0:
                A, B = Fr(opa) * o, Fr(opb) * o
            elif mode == 1:
                A, B = Fr(opa, 1 << opa_sh) * o, unscaled * o
            else:
                A, B = unscaled * o, Fr(opa, 1 << opa_sh) * o
            if rev:
                A, B = B, A
            f1, f2, fo = (Fr(float(np.float32(v))) for v in (s1, s2, so))
            for name, got, exp in (("first", A, f1 / fo), ("second", B, f2 / fo)):
                rel = abs(got - exp) / exp
                if rel > Fr(1, 1 << 24):
                    bad.append(((sub + (".reversed" if rev else ""), dt, s1, s2, so), "%s operand is weighted %.10g, the scales give %.10g (relative error 2^%.1f; OPA=%d>>%d OPB=%d OFM=%d>>%d operand-to-scale=%d)" % (
                        name, float(got), float(exp), math.log2(float(rel)), opa, opa_sh, opb, ofm, ofm_sh, mode)))
                    break
    return n, bad


REQUANT_SCALES = [(0.0235294, 0.0431373), (0.05, 0.0078431), (0.1, 0.3), (0.0078125, 0.015625), (0.00392157, 0.0235294), (0.7, 0.011), (0.02, 0.02000001), (1.0 / 3, 0.0123)]


def _requant_shard(cases):
    """QUANTIZE as compiled from a .tflite file (float32 scales from the reader): the OFM scale programmed for the re-quantising pool operation,
    decoded from the output file, must be the reference pair of double(s_in) / double(s_out)"""
    core.bind_repo()
    from .. import compile as C
    from .. import netrun, outfile
    from ..tfl import build, nets

    bad = []
    n = 0
    for (dt, si, so, acc) in cases:
        net = nets.Net(0)
        x = net.act([1, 4, 4, 8], dt, name="input", q=(si, 0 if dt != "uint8" else 128))
        net.inputs.append(x)
        net.open.append(x)
        net.cur = x
        y = net.act([1, 4, 4, 8], dt, q=(so, 0 if dt != "uint8" else 121))
        net.op("QUANTIZE", [x], [y], ("QuantizeOptions", {}))
        rec = C.compile_main(build.serialise(net.model()), dict(acc=acc, mem="default", opt="Performance", arena=None, alloc="HillClimb", align=16), want_sideband=False)
        if rec["status"] != 0 or rec["out"] is None:
            continue
        an = outfile.analyse(rec["out"])
        for s_ in netrun.decode_streams(an, rec, acc):
            for op in s_.ops:
                if op.kind != "pool":
                    continue
                n += 1
                m, sh = op.r("OFM_SCALE", (0, 0))
                exact = Fr(float(np.float32(si))) / Fr(float(np.float32(so)))
                em, esh = ref_qm(exact)
                if (m, sh) != (em, esh):
                    rel = abs(Fr(m, 1 << sh) - exact) / exact
                    bad.append(((dt, si, so, acc), "OFM scale (%d, %d) programmed for the re-quantisation %r -> %r, reference (%d, %d); relative error 2^%.1f" % (
                        m, sh, si, so, em, esh, math.log2(float(rel)) if rel else -99)))
    return n, bad


POOLREG_WINDOWS = [(1, 2), (2, 1), (1, 3), (3, 1), (2, 3), (3, 2), (1, 4), (4, 1), (2, 4), (4, 2), (3, 4), (4, 3), (2, 8), (8, 2), (3, 5), (5, 3), (1, 8), (8, 1), (2, 2), (3, 3)]


def _poolreg_shard(cases):
    """AVERAGE_POOL_2D with VALID padding (the divisor comes from Vela, not from the hardware) and equal input/output quantisation, compiled from
    .tflite bytes: for the pooling operation found in the emitted command stream, the OFM_SCALE pair applied to the sum of the KERNEL_HEIGHT x
    KERNEL_WIDTH window programmed for that very operation must be round-half-up division by the window size for EVERY accumulator of the type."""
    core.bind_repo()
    from .. import compile as C
    from .. import netrun, outfile
    from ..tfl import build, nets

    bad = []
    n = 0
    for (dt, kh, kw, acc) in cases:
        net = nets.Net(0)
        x = net.act([1, kh + 3, kw + 3, 8], dt, name="input", q=(0.05, 0 if dt != "uint8" else 128))
        net.inputs.append(x)
        net.open.append(x)
        net.cur = x
        y = net.act([1, 4, 4, 8], dt, q=(0.05, 0 if dt != "uint8" else 128))
        net.op("AVERAGE_POOL_2D", [x], [y], ("Pool2DOptions", dict(Padding=nets.PAD_VALID, StrideW=1, StrideH=1, FilterWidth=kw, FilterHeight=kh, FusedActivationFunction=0)))
        rec = C.compile_main(build.serialise(net.model()), dict(acc=acc, mem="default", opt="Performance", arena=None, alloc="HillClimb", align=16), want_sideband=False)
        if rec["status"] != 0 or rec["out"] is None:
            continue
        an = outfile.analyse(rec["out"])
        for s_ in netrun.decode_streams(an, rec, acc):
            for op in s_.ops:
                if op.kind != "pool" or op.sub != "AVERAGE":
                    continue
                k = (op.r("KERNEL_HEIGHT_M1") + 1) * (op.r("KERNEL_WIDTH_M1") + 1)
                if k != kh * kw:
                    continue  # rewritten to something else (judged by C01)
                n += 1
                m, sh = op.r("OFM_SCALE", (0, 0))
                bits = 16 if dt == "int16" else 8
                lo_a, hi_a = -(1 << (bits - 1)) * k, ((1 << bits) - 1) * k
                a = np.arange(lo_a, hi_a + 1, dtype=np.int64)
                got = (a * np.int64(m) + ((np.int64(1) << np.int64(sh - 1)) if sh > 0 else 0)) >> np.int64(sh)
                exp = np.sign(a) * ((2 * np.abs(a) + k) // (2 * k))
                w = np.nonzero(got != exp)[0]
                if len(w):
                    i = int(w[0])
                    bad.append(((dt, kh, kw, acc), "OFM scale (%d, %d) programmed for the %dx%d VALID average pool: window sum %d -> %d, division by %d gives %d (%d of %d accumulators differ)" % (
                        m, sh, kh, kw, int(a[i]), int(got[i]), k, int(exp[i]), len(w), len(a))))
    return n, bad


def replay(ctx, case):
    if case.get("kind") == "ewmix":
        n, bad = _ewmix_shard([case["s1"]])
        return [str(b) for b in bad]
    if case.get("kind") == "poolreg":
        n, bad = _poolreg_shard([tuple(case["case"])])
        return [b[1] for b in bad]
    if case.get("kind") == "requant":
        n, bad = _requant_shard([tuple(case["case"])])
        return [b[1] for b in bad]
    if case.get("kind") == "ewreg":
        n, bad = _ewreg_shard([tuple(case["case"])])
        return [b[1] for b in bad]
    if case.get("kind") == "scale_record":
        from . import c08

        req = dict(case["req"])
        for k_ in ("k", "dil"):
            req[k_] = tuple(req[k_])
        n, bad = c08._req_shard([req])
        return [p_ for _, probs in bad for p_ in probs if "multiplier" in p_ or "encode failed" in p_]
    core.bind_repo(need_codec=False)
    from ethosu.vela import scaling

    if case["kind"] == "f32":
        v = f32((case["E"] << 23) | case["mant"])
        v = float(v) if case["as_float"] else v
        fn = getattr(scaling, case["fn"])
        exact = Fr(float(v))
        t = judge_full(exact, fn(v)) if case["fn"] == "quantise_scale" else judge_reduced(exact, fn(v))
        return ["%s(%r) = %s: %s" % (case["fn"], v, fn(v), t)] if t else []
    if case["kind"] == "f64":
        v = struct.unpack("<d", struct.pack("<Q", (case["e"] << 52) | case["mant"]))[0]
        fn = getattr(scaling, case["fn"])
        exact = Fr(v)
        t = judge_full(exact, fn(v)) if case["fn"] == "quantise_scale" else judge_reduced(exact, fn(v))
        return ["%s(%r) = %s: %s" % (case["fn"], v, fn(v), t)] if t else []
    if case["kind"] == "pool":
        n, bad = _pool_shard((case["k"], case["k"] + 1, 64, 16))
        return [str(b) for b in bad]
    if case["kind"] == "ew":
        n, bad = _ew_shard([case["s1"]])
        return [str(b) for b in bad if list(b[1]) == [case["s1"], case["s2"], case["so"]]]
    return []


def run(ctx):
    core.bind_repo(need_codec=False)
    quick = ctx.tier == "quick"
    # float32 exponent fields: value = 1.m * 2^(E-127).  shift = 30 - (E-127)
    if quick:
        exps = [127 - 8, 127 + 14, 127 + 15]  # typical scale 2^-8; the reduced-form boundary (full shift 16 / 15)
        step = 1 << 19
    else:
        exps = sorted(set(list(range(127 - 35, 127 + 33)) ))
        step = 1 << 20
    shards = []
    for E in exps:
        for lo in range(0, 1 << 23, step):
            shards.append((E, lo, min(lo + step, 1 << 23), (E + lo // step) % 2 == 0))
    total = 0
    seen_keys = set()
    for n, bad in pmap(_mantissa_shard, shards):
        total += n
        for fn, E, mant, as_float, got, exp in bad:
            # identity of a failure: function + exponent class (the whole mantissa range of an exponent fails alike)
            key = "%s|f32-exponent-field=%d|shift=%d" % (fn, E, 30 - (E - 127))
            if key not in seen_keys:
                seen_keys.add(key)
                ctx.violation(key, "%s(%r) returned %s, expected %s" % (fn, float(f32((E << 23) | mant)), got, exp), dict(kind="f32", fn=fn, E=E, mant=mant, as_float=as_float))
    ctx.count("f32_calls", total)
    # ADD/SUB scaling as programmed: equal / almost equal / different input scales through the real generator
    ec = _ewreg_cases()
    for n, bad in pmap(_ewreg_shard, [ec[i:i + 20] for i in range(0, len(ec), 20)]):
        ctx.count("elementwise_register_cases", n)
        for case, what in bad:
            sub, dt, s1, s2, so = case
            ctx.violation("ewreg|%s|%s|ratio=%.3g" % (sub, dt, s2 / s1 - 1), "%s %s with input scales %r, %r and output scale %r: %s" % (sub, dt, s1, s2, so, what), dict(kind="ewreg", case=list(case)))
    rq = [(dt, si, so, acc) for dt in ("int8", "int16", "uint8") for (si, so) in REQUANT_SCALES for acc in (("ethos-u55-128",) if quick else ("ethos-u55-64", "ethos-u55-128", "ethos-u65-512"))]
    for n, bad in pmap(_requant_shard, [rq[i:i + 4] for i in range(0, len(rq), 4)]):
        ctx.count("requantise_register_cases", n)
        for case, what in bad:
            ctx.violation("requant|%s|%r>%r" % (case[0], case[1], case[2]), what, dict(kind="requant", case=list(case)))
    pr = [(dt, kh, kw, acc) for dt in ("int8", "uint8", "int16") for (kh, kw) in (POOLREG_WINDOWS[:12] if quick else POOLREG_WINDOWS) for acc in (("ethos-u55-128",) if quick else ("ethos-u55-128", "ethos-u65-512"))]
    for n, bad in pmap(_poolreg_shard, [pr[i:i + 3] for i in range(0, len(pr), 3)]):
        ctx.count("pool_register_cases", n)
        for case, what in bad:
            ctx.violation("poolreg|%s|%dx%d" % (case[0], case[1], case[2]), what, dict(kind="poolreg", case=list(case)))
    # per-channel scale records as stored for the hardware (weight_compressor._prepare_scale_and_bias picks the derivation by operator
    # kind and data type): every (kind, data type, per-channel, converted-convolution) class through the real tensor assembly
    from . import c08

    seenr = set()
    reqs = []
    for r in c08.requests("quick"):
        k = (r["kind"], r["dt"], r["per_channel"], bool(r.get("as_conv")), r["acc"] if r.get("as_conv") else "-", bool(r.get("bias32")))
        if k not in seenr and r["depth"] in (8, 17):
            seenr.add(k)
            reqs.append(r)
    for n, bad in pmap(c08._req_shard, [reqs[i:i + 4] for i in range(0, len(reqs), 4)]):
        ctx.count("scale_record_requests", n)
        for req, probs in bad:
            probs = [p_ for p_ in probs if "multiplier" in p_ or "encode failed" in p_]
            if probs:
                ctx.violation("scale-record|%s|%s|%s%s" % (req["kind"], req["dt"] + ("+bias32" if req.get("bias32") else ""), "per-channel" if req["per_channel"] else "per-tensor", "|conv-as-fc" if req.get("as_conv") else ""),
                              "%s  [%s]" % (probs[0], {k_: req[k_] for k_ in ("kind", "dt", "per_channel", "acc", "depth")}), dict(kind="scale_record", req=req))
    # float64: every exponent
    sh64 = [(e, min(e + 64, 2047)) for e in range(1, 2047, 64)]
    for n, bad in pmap(_f64_shard, sh64):
        ctx.count("f64_calls", n)
        for fn, _, e, mant, conv, tags in bad:
            # fold the reduced-form defect family by shift class
            v = struct.unpack("<d", struct.pack("<Q", (e << 52) | mant))[0]
            _, esh = ref_qm(Fr(v))
            key = "%s|f64|%s|full-shift=%d" % (fn, "+".join(tags), esh) if -8 < esh < 72 else "%s|f64|%s|far-out-of-range" % (fn, "+".join(tags))
            if key not in seen_keys:
                seen_keys.add(key)
                ctx.violation(key, "%s(%r as %s): %s" % (fn, v, conv, tags), dict(kind="f64", fn=fn, e=e, mant=mant))
    # pooling
    upto8, upto16 = (64, 8) if quick else (256, 16)
    maxk = 65536
    psh = [(lo, min(lo + 16, maxk + 1), upto8, upto16) for lo in range(1, 300, 16)] + [(lo, min(lo + 2048, maxk + 1), upto8, upto16) for lo in range(304, maxk + 1, 2048)]
    for n, bad in pmap(_pool_shard, psh):
        ctx.count("pool_evals", n)
        for b in bad:
            ctx.violation("pooling|k=%d|%s" % (b[1], b[2][:40]), str(b), dict(kind="pool", k=b[1]))
    # elementwise
    vals = _ew_cases()
    for n, bad in pmap(_ew_shard, [[v] for v in vals]):
        ctx.count("elementwise_triples", n)
        for what, key, msg in bad:
            ctx.violation("%s|%s" % (what, key), "%s %s: %s" % (what, key, msg), dict(kind="ew", s1=key[0], s2=key[1], so=key[2]))
    s1s = [v for v in _ew_cases()]
    seenm = set()
    for n, bad in pmap(_ewmix_shard, [s1s[i:i + 4] for i in range(0, len(s1s), 4)]):
        ctx.count("elementwise_mixed_precision_calls", n)
        for what, key, msg in bad:
            if what not in seenm:
                seenm.add(what)
                ctx.violation("ewmix|%s" % what, "elementwise_mul_scale%s: %s" % (key, msg), dict(kind="ewmix", s1=key[0]))
    c = ctx.counters
    cov = dict(
        evaluations=c.get("f32_calls", 0) + c.get("f64_calls", 0) + c.get("pool_evals", 0) + c.get("elementwise_triples", 0),
        distinct_nontrivial=c.get("f32_calls", 0) // 2 + c.get("f64_calls", 0) // 4,
        rule="quantise_scale / reduced_quantise_scale on ALL 2^23 float32 mantissas at exponent fields %s (alternately as float / np.float32) and on all 2046 float64 exponents x 36 mantissas; "
             "quantise_pooling_scale for all window sizes 1..65536 and every accumulator of 8-bit windows <= %d / 16-bit windows <= %d; elementwise mul/add/sub triples over %d^3 scales. "
             "distinct = distinct scale values" % (exps if quick else "92..159", upto8, upto16, len(vals)),
        samples=[dict(scale=0.0039215, quantise_scale=list(map(int, __import__("ethosu.vela.scaling", fromlist=["x"]).quantise_scale(0.0039215))))],
        exhaustive=True,
        bound="float32 mantissas complete at the listed exponents; float64 mantissas are a lattice",
    )
    return ctx.finish("exploration", cov, ["reference = TFLite QuantizeMultiplier evaluated on exact rationals", "elementwise scale expressions are evaluated in double precision (Python float operands)"])
