"""C11 - model interface and CPU-resident operators are preserved verbatim (source vs output flatbuffer, plain reader)."""
import os
import tempfile

import numpy as np

from .. import netrun, sweep
from ..tfl import corner, nets, read


def _qeq(a, b):
    if a is None or b is None:
        return (a is None or (not a.get("scale") and not a.get("zp"))) and (b is None or (not b.get("scale") and not b.get("zp")))
    fa = np.asarray(a.get("scale") or [], dtype=np.float32)
    fb = np.asarray(b.get("scale") or [], dtype=np.float32)
    return fa.shape == fb.shape and bool(np.all(fa == fb)) and list(a.get("zp") or []) == list(b.get("zp") or []) and (a.get("qdim") or 0) == (b.get("qdim") or 0)


def _tens_eq(ta, tb, check_name=True):
    probs = []
    if check_name and ta["name"] != tb["name"]:
        probs.append("name %r != %r" % (ta["name"], tb["name"]))
    if (ta["shape"] or []) != (tb["shape"] or []):
        probs.append("shape %s != %s" % (ta["shape"], tb["shape"]))
    if ta["dtype"] != tb["dtype"]:
        probs.append("type %s != %s" % (ta["dtype"], tb["dtype"]))
    if not _qeq(ta["quant"], tb["quant"]):
        probs.append("quantisation %s != %s" % (ta["quant"], tb["quant"]))
    return probs


_defaults = {}
_LENIENT = [False]  # single-operator corner models carry no options table: Vela may materialise derived options (e.g. CAST types)


def _default_fields(tname):
    """field dict of an empty table of option type tname (flatbuffer defaults), via the generated accessors"""
    if tname not in _defaults:
        import importlib

        import flatbuffers

        b = flatbuffers.Builder(64)
        m = importlib.import_module("ethosu.vela.tflite." + tname)
        getattr(m, tname + "Start")(b)
        off = getattr(m, tname + "End")(b)
        b.Finish(off)
        buf = b.Output()
        obj = getattr(m, tname).GetRootAs(buf, 0)
        _defaults[tname] = read.generic_table(obj)
    return _defaults[tname]


def _opts_eq(a, b):
    """an absent options table denotes the same as a table holding only default values"""
    if a == b:
        return True
    if a is None and b is not None:
        return b[1] == _default_fields(b[0]) or _LENIENT[0]
    if b is None and a is not None:
        return a[1] == _default_fields(a[0])
    return False


def oracle(case, rec, an, streams, mb):
    viol = []
    stats = dict(cpu_ops_preserved=0, absorbed=0, folded=0, optional_operands=0)
    _LENIENT[0] = case.get("level") == "corner"
    src = read.read_model(mb)
    out = an["model"]
    if len(src["subgraphs"]) != 1 or not out["subgraphs"]:
        return viol, stats
    s, o = src["subgraphs"][0], out["subgraphs"][0]
    # 1. interface
    for what in ("inputs", "outputs"):
        a, b = s[what], o[what]
        # Vela documents (with a warning) that duplicated entries in the subgraph input/output lists are removed
        a_names = []
        for i in a:
            if s["tensors"][i]["name"] not in a_names:
                a_names.append(s["tensors"][i]["name"])
        b_names = [o["tensors"][i]["name"] for i in b]
        if a_names != b_names:
            viol.append(("interface-%s" % what, "subgraph %s %s became %s" % (what, a_names, b_names)))
            continue
        for i, j in zip([next(k for k in a if s["tensors"][k]["name"] == n) for n in a_names], b):
            p = _tens_eq(s["tensors"][i], o["tensors"][j])
            if p:
                viol.append(("interface-%s-tensor" % what, "subgraph %s tensor %s: %s" % (what[:-1], s["tensors"][i]["name"], "; ".join(p))))
    # name -> index maps (names are unique in generated models unless the case says otherwise)
    oname = {}
    for i, t in enumerate(o["tensors"]):
        oname.setdefault(t["name"], i)
    produced_by = {}
    for oi, op in enumerate(o["ops"]):
        for t in op["outputs"]:
            if t >= 0:
                produced_by[t] = oi
    used = set()
    # operators the compiler itself announced as CPU-placed (its console messages name the operator by its result tensor)
    import re as _re

    cpu_announced = set()
    for m_ in _re.finditer(r"(?:Warning: (?:Unsupported TensorFlow Lite semantics for )?|Info: )\S+ '([^']*)' (?:is not supported on the NPU\. Placing on CPU instead|\. Placing on CPU instead|is a CPU only op)", rec.get("log") or ""):
        cpu_announced.add(m_.group(1))
    for m_ in _re.finditer(r"Unsupported TensorFlow Lite semantics for \S+ '([^']*)'\. Placing on CPU instead", rec.get("log") or ""):
        cpu_announced.add(m_.group(1))
    stats["cpu_announcements"] = len(cpu_announced)
    for si, sop in enumerate(s["ops"]):
        out_names = [s["tensors"][t]["name"] for t in sop["outputs"] if t >= 0]
        # candidates: output ops with the same opcode/custom code producing the same-named tensors
        cands = [oi for oi, op in enumerate(o["ops"]) if op["op"] == sop["op"] and op["custom_code"] == sop["custom_code"]
                 and [o["tensors"][t]["name"] for t in op["outputs"] if t >= 0] == out_names]
        if len(cands) > 1:
            viol.append(("duplicated-operator|%s" % sop["op"], "source operator %s producing %s appears %d times in the output" % (sop["op"], out_names, len(cands))))
            continue
        if not cands:
            # absorbed or folded?
            ok = True
            if out_names and any(nm_ in cpu_announced for nm_ in out_names) and not any(nm_ in [o["tensors"][i_]["name"] for i_ in o["inputs"]] for nm_ in out_names):
                ok = False
                viol.append(("announced-cpu-operator-lost|%s" % sop["op"], "the compiler announced that %s producing %r is placed on the CPU, but the output graph has no such operator" % (sop["op"], out_names)))
                continue
            for t in sop["outputs"]:
                if t < 0:
                    continue
                nm = s["tensors"][t]["name"]
                if nm not in oname:
                    continue  # tensor gone: inside an Ethos-U operator
                ot = oname[nm]
                if ot in produced_by and o["ops"][produced_by[ot]]["custom_code"] == "ethos-u":
                    continue
                if out["buffers"][o["tensors"][ot]["buffer"]] is not None:
                    stats["folded"] += 1
                    continue
                if ot in o["inputs"]:
                    continue
                ok = False
                viol.append(("operator-lost|%s" % sop["op"], "source operator %s producing %r is neither present, absorbed into an Ethos-U operator, nor folded (tensor %s)" % (
                    sop["op"], out_names, "produced by %s" % o["ops"][produced_by[ot]]["op"] if ot in produced_by else "has no producer")))
            if ok:
                stats["absorbed"] += 1
            continue
        oi = cands[0]
        used.add(oi)
        op = o["ops"][oi]
        stats["cpu_ops_preserved"] += 1
        if op["version"] != sop["version"]:
            viol.append(("version|%s" % sop["op"], "operator %s version %d became %d" % (sop["op"], sop["version"], op["version"])))
        if not _opts_eq(sop["opts"], op["opts"]):
            viol.append(("options|%s" % sop["op"], "operator %s options %s became %s" % (sop["op"], sop["opts"], op["opts"])))
        if (op["custom"] or b"") != (sop["custom"] or b""):
            viol.append(("custom-options|%s" % sop["op"], "custom options of %s changed" % sop["op"]))
        def strip(l):
            l = list(l)
            while _LENIENT[0] and l and l[-1] < 0:
                l.pop()  # option-less corner models only: Vela normalises a missing optional operand to an explicit -1
            return l
        if len(strip(op["inputs"])) != len(strip(sop["inputs"])):
            viol.append(("operand-count|%s" % sop["op"], "operator %s has %d operands, source has %d (%s -> %s)" % (
                sop["op"], len(op["inputs"]), len(sop["inputs"]), sop["inputs"], op["inputs"])))
            continue
        for pos, (a, b) in enumerate(zip(strip(sop["inputs"]), strip(op["inputs"]))):
            if a < 0 or b < 0:
                stats["optional_operands"] += 1
                if (a < 0) != (b < 0):
                    viol.append(("operand-omitted|%s" % sop["op"], "operand %d of %s: %s in the source, %s in the output" % (pos, sop["op"], a, b)))
                continue
            ta, tb = s["tensors"][a], o["tensors"][b]
            da, db = read.tensor_data(src, 0, a), read.tensor_data(out, 0, b)
            if da is not None or db is not None:
                # constant operand: data, type, shape, quantisation must be equal (the name may get a suffix)
                if da is None or db is None or da.tobytes() != db.tobytes():
                    viol.append(("constant-operand|%s" % sop["op"], "constant operand %d (%s) of %s changed" % (pos, ta["name"], sop["op"])))
                p = _tens_eq(ta, tb, check_name=False)
                if p:
                    viol.append(("constant-operand-meta|%s" % sop["op"], "constant operand %d of %s: %s" % (pos, sop["op"], "; ".join(p))))
                # operand wiring: the operator must refer to the source's constant tensor, not to a renamed working copy of it
                # (a copy per operator also loses the sharing of one constant between several operators)
                if ta["name"] != tb["name"]:
                    viol.append(("constant-operand-wiring|%s" % sop["op"], "constant operand %d of %s is tensor %r, the source operator refers to %r" % (pos, sop["op"], tb["name"], ta["name"])))
            else:
                if ta["name"] != tb["name"]:
                    viol.append(("wiring|%s" % sop["op"], "operand %d of %s is %r, source has %r" % (pos, sop["op"], tb["name"], ta["name"])))
                p = _tens_eq(ta, tb)
                if p:
                    viol.append(("operand-meta|%s" % sop["op"], "operand %d of %s: %s" % (pos, sop["op"], "; ".join(p))))
    # 3. order respects data dependencies
    defined = set(o["inputs"])
    for ti, t in enumerate(o["tensors"]):
        if out["buffers"][t["buffer"]] is not None or t["is_variable"]:
            defined.add(ti)
    for oi, op in enumerate(o["ops"]):
        for t in op["inputs"]:
            if t >= 0 and t not in defined and t in produced_by and produced_by[t] > oi:
                viol.append(("order", "operator %d (%s) reads tensor %s that is produced later by operator %d" % (oi, op["op"], o["tensors"][t]["name"], produced_by[t])))
        for t in op["outputs"]:
            if t >= 0:
                defined.add(t)
    # 4. Vela's own reader must parse the written file (not judged for option-less corner models: the reader needs options)
    if _LENIENT[0]:
        return viol, stats
    d = tempfile.mkdtemp(prefix="vfw-c11-")
    try:
        p = os.path.join(d, "o.tflite")
        open(p, "wb").write(rec["out"])
        from ethosu.vela import model_reader

        try:
            nng, _ = model_reader.read_model(p, model_reader.ModelReaderOptions())
            if nng is None:
                viol.append(("reread", "Vela's reader returned nothing for its own output"))
        except Exception as e:
            viol.append(("reread|%s" % type(e).__name__, "Vela's reader fails on its own output: %s: %s" % (type(e).__name__, str(e)[:120])))
    finally:
        import shutil

        shutil.rmtree(d, ignore_errors=True)
    return viol, stats


def _key(key, name):
    steps = name.split(">", 1)[1].split(" @")[0] if ">" in name else name
    return "%s|steps=%s" % (key, steps)


def replay(ctx, case):
    if "h" not in case and "model_bytes" not in case:
        # extra cases are stored by name: rebuild the model bytes
        from .. import core

        core.bind_repo(need_codec=False)
        for c in extra_cases("quick", 0):
            if c["name"] == case.get("name") and c["cfg"] == case.get("cfg"):
                case = dict(case, model_bytes=c["model_bytes"])
                break
    return netrun.replay_case(oracle, case)


def extra_cases(tier, seed):
    """every builtin operator (schema-valid corner model) sandwiched behind an NPU conv: must survive verbatim or be placed on the NPU."""
    out = []
    from ..tfl import build

    for spec in corner.corner_cases("quick"):
        sp = spec["spec"]
        if "struct" in sp or sp.get("rank") != 4 or sp.get("dtype") != "int8" or sp.get("out_dtype"):
            continue
        try:
            mb = build.serialise(corner.build_corner(sp))
        except Exception:
            continue
        out.append(dict(model_bytes=mb, cfg=dict(acc="ethos-u55-128"), name="corner:%s/%d" % (sp["op"], sp["arity"]), level="corner"))
    # interface entries that the surviving operators do not need (judged like every other network: the entry lists are the source's)
    for kind in ("unused_input_first", "unused_input_last", "dead_op_input", "const_input", "output_is_input", "const_output", "unused_tensor"):
        for acc in ("ethos-u55-128", "ethos-u65-256"):
            out.append(dict(model_bytes=build.serialise(corner._structural(kind)), cfg=dict(acc=acc), name="iface:%s" % kind, level="iface"))
    return out


def run(ctx):
    return netrun.run(
        ctx, oracle, "exploration",
        rule="every generated network (incl. CPU-only steps: third-party custom op, NEG, DEPTH_TO_SPACE, dynamic-weight CONV_2D with and without bias, taps and branches) x configuration; "
             "every builtin operator as a single-operator model; source and output decoded with a plain flatbuffer reader and compared field by field",
        assumptions=["tensor identity across files = tensor name (A6); duplicated subgraph input/output entries are de-duplicated by Vela with a warning and compared after de-duplication",
                     "absorbed = operator missing and its outputs missing or produced by an ethos-u operator; folded = output owns a constant buffer"],
        nontrivial_stat="cpu_ops_preserved", key_fn=_key, extra_cases=extra_cases(ctx.tier, ctx.seed))
