"""C16 - operators within the documented constraints are accelerated, others stay on the CPU.

Exhaustive enumeration of operator-instance lattices (vfw/props/c16_fam.py: for every documented numeric range the last
value inside and the first outside, for every categorical constraint an allowed and a forbidden value, alone and between two
accelerated convolutions) x accelerators.  For every instance the constraint sentences of the report produced by the real
`vela --supported-ops-report` are evaluated by independent tri-state predicates (c16_pred.py); the instance is compiled by the
real vela.main and the placement of the operator is read from the output file:
   all listed constraints clearly satisfied  => the operator is not on the CPU any more (and an Ethos-U operator exists)
   some listed constraint clearly violated   => the operator is on the CPU, byte-for-byte the same operator
Plus the structural comparison report <-> constraint lists the compiler enforces."""
import os
import re

from .. import compile as C
from .. import core, isolate, outfile
from ..isolate import pmap
from ..tfl import build, read
from . import c16_fam, c16_pred, c16_report

_REP = None


def _report():
    global _REP
    if _REP is None:
        core.bind_repo()
        res, text = isolate.run_forked(c16_report.report_text, (), timeout=120)
        _REP = c16_report.parse(res[1]) if res[0] == "ok" else dict(generic=[], specific={}, ops=[])
    return _REP


def _tensor_sig(t):
    q = t["quant"]
    return (t["shape"], t["dtype"], None if q is None else (q["scale"], q["zp"]))


def _compile(mb, cfg):
    return C.compile_main(mb, cfg, want_sideband=False)


def judge(name, model, subj, cfg, rep):
    """-> dict(status, expect, placed, key, what, stats)"""
    try:
        mb = build.serialise(model)
        src = read.read_model(mb)
    except Exception as e:  # the instance cannot be expressed as a flatbuffer
        return dict(status="unbuildable", why="%s: %s" % (type(e).__name__, str(e)[:80]))
    s = c16_pred.Subject(src, subj)
    texts = c16_report.constraints_for(rep, s.name)
    if texts is None:
        return dict(status="op-not-in-report", op=s.name)
    verdicts, unknown = c16_pred.evaluate(texts, s)
    violated = [t for t, v in verdicts if v is False]
    undecided = [t for t, v in verdicts if v is None]
    expect = "cpu" if violated else ("npu" if not undecided else None)
    res, text = isolate.run_forked(_compile, (mb, cfg), timeout=600)
    if res[0] != "ok" or res[1].get("out") is None:
        return dict(status="compile-failed", expect=expect, op=s.name, why=(res[1].get("status") if res[0] == "ok" else "%s:%s" % (res[0], (res[1:2] or [""])[0])))
    an = outfile.analyse(res[1]["out"])
    osg = an["sg"]
    n_src = sum(1 for o in src["subgraphs"][0]["ops"] if o["op"] == s.name)
    same = [o for o in osg["ops"] if o["op"] == s.name]
    n_npu = len(an["npu"])
    refused = None
    m = re.search(r"is not supported on the NPU\. Placing on CPU instead\s*\n\s*- (.*(?:\n\s{6,}.*)*)", text or "")
    if m:
        refused = c16_report.norm(m.group(1))
    else:
        m = re.search(r"Unsupported TensorFlow Lite semantics for .*\n\s*- (.*(?:\n\s{6,}.*)*)", text or "")
        if m:
            refused = c16_report.norm(m.group(1))
    # the subject is on the CPU iff a non-Ethos-U operator of the output graph still produces its result tensor
    so_ = src["subgraphs"][0]["ops"][subj]
    out_names = [src["subgraphs"][0]["tensors"][i]["name"] for i in so_["outputs"]]
    producers = [o for o in osg["ops"] if o["custom_code"] != "ethos-u" and any(osg["tensors"][i]["name"] in out_names for i in o["outputs"])]
    if producers:
        placed = "cpu" if all(o["op"] == s.name for o in producers) else "?"
    else:
        placed = "npu" if n_npu >= 1 else "gone"
    out = dict(status="judged" if expect else "undecided", expect=expect, placed=placed, op=s.name, violated=violated, undecided=undecided, unknown=unknown, refused=refused)
    if expect == "npu" and placed == "cpu":
        out["key"] = "inside-on-cpu|%s|%s" % (s.name, refused or "no reason printed")
        out["what"] = "%s satisfies every constraint the report lists for it but stays on the CPU (Vela's reason: %s)" % (s.name, refused or "none printed")
    elif expect == "cpu" and placed in ("npu", "gone"):
        out["key"] = "outside-on-npu|%s|%s" % (s.name, violated[0])
        out["what"] = "%s violates the listed constraint '%s' but is not left on the CPU (Ethos-U operators in the output: %d)" % (s.name, violated[0], n_npu)
    elif expect == "cpu" and placed == "cpu":
        # unchanged: same options, same operand/result tensors (by name)
        so = src["subgraphs"][0]["ops"][subj]
        st = src["subgraphs"][0]["tensors"]
        names = {t["name"]: t for t in osg["tensors"]}
        cand = None
        for o in same:
            outs = [osg["tensors"][i]["name"] for i in o["outputs"]]
            if outs == [st[i]["name"] for i in so["outputs"]]:
                cand = o
        diffs = []
        if cand is None:
            diffs.append("no %s operator producing %s in the output graph" % (s.name, [st[i]["name"] for i in so["outputs"]]))
        else:
            if cand["opts"] != so["opts"]:
                diffs.append("options %r -> %r" % (so["opts"], cand["opts"]))
            if cand["version"] != so["version"]:
                diffs.append("version %r -> %r" % (so["version"], cand["version"]))
            for role, a, b in (("input", so["inputs"], cand["inputs"]), ("output", so["outputs"], cand["outputs"])):
                if len(a) != len(b):
                    diffs.append("%d %ss -> %d" % (len(a), role, len(b)))
                    continue
                for i, j in zip(a, b):
                    if (i < 0) != (j < 0):
                        diffs.append("omitted %s changed" % role)
                    elif i >= 0 and _tensor_sig(st[i]) != _tensor_sig(osg["tensors"][j]):
                        diffs.append("%s %s: %r -> %r" % (role, st[i]["name"], _tensor_sig(st[i]), _tensor_sig(osg["tensors"][j])))
        if diffs:
            out["key"] = "cpu-op-changed|%s" % s.name
            out["what"] = "%s is left on the CPU but not unchanged: %s" % (s.name, "; ".join(diffs)[:400])
    return out


def _shard(args):
    name, model, subj, cfg, rep = args
    core.bind_repo()
    r = judge(name, model, subj, cfg, rep)
    r["name"] = name
    r["acc"] = cfg["acc"]
    return r


def structural(rep):
    """report <-> constraint lists of the two checkers, by documentation string"""
    from ethosu.vela.operation import Op  # noqa
    from ethosu.vela.tflite_mapping import BUILTIN_OPERATOR_UNKNOWN, optype_to_builtintype
    from ethosu.vela.tflite_model_semantic import TFLiteSemantic
    from ethosu.vela.tflite_supported_operators import TFLiteSupportedOperators

    sup, sem = TFLiteSupportedOperators(), TFLiteSemantic()
    problems = []
    enforced = {}
    sem_excl = TFLiteSemantic.get_generic_constraint_exclude_list()
    for op_type in TFLiteSupportedOperators.supported_operators:
        name = optype_to_builtintype(op_type)
        if name is BUILTIN_OPERATOR_UNKNOWN or name == BUILTIN_OPERATOR_UNKNOWN:
            continue
        docs = set()
        for c in sem.generic_constraints:
            if c not in sem_excl.get(op_type, []):
                docs.add(c16_report.norm(c.__doc__))
        for c in sem.specific_constraints[op_type]:
            docs.add(c16_report.norm(c.__doc__))
        for c in sup.generic_constraints:
            if c not in sup.generic_constraints_exceptions[op_type]:
                docs.add(c16_report.norm(c.__doc__))
        for c in sup.specific_constraints[op_type]:
            docs.add(c16_report.norm(c.__doc__))
        enforced.setdefault(name, []).append(docs)
    for name, sets in sorted(enforced.items()):
        listed = c16_report.constraints_for(rep, name)
        if listed is None:
            problems.append(("enforced-op-not-in-report|%s" % name, "%s can be placed on the NPU but the report has no row for it" % name))
            continue
        listed = set(listed)
        union = set().union(*sets)
        inter = set.intersection(*sets)
        for t in sorted(inter - listed):
            problems.append(("enforced-not-listed|%s|%s" % (name, t), "the compiler enforces '%s' for %s but the report does not list it" % (t, name)))
        for t in sorted(listed - union):
            problems.append(("listed-not-enforced|%s|%s" % (name, t), "the report lists '%s' for %s but no constraint with that documentation is enforced" % (t, name)))
    for name in rep["ops"]:
        if name not in enforced:
            problems.append(("report-op-not-enforced|%s" % name, "the report has a row for %s but the compiler has no constraint list for it" % name))
    return problems


def _structural_child():
    core.bind_repo()
    rep = c16_report.parse(c16_report.report_text())
    return structural(rep)


def replay(ctx, case):
    core.bind_repo()
    if case.get("structural"):
        res, _ = isolate.run_forked(_structural_child, (), timeout=120)
        return [w for k, w in res[1] if k == case["key"]] if res[0] == "ok" else ["structural check failed to run"]
    rep = _report()
    fam = {n: (m, s) for n, m, s in c16_fam.families(case.get("tier", "quick"))}
    if case["name"] not in fam:
        return []
    m, s = fam[case["name"]]
    r = judge(case["name"], m, s, dict(acc=case["acc"]), rep)
    return [r["what"]] if r.get("key") else []


def run(ctx):
    core.bind_repo()
    rep = _report()
    accs = ["ethos-u55-128", "ethos-u65-256"] if ctx.tier == "quick" else ["ethos-u55-32", "ethos-u55-64", "ethos-u55-128", "ethos-u55-256", "ethos-u65-256", "ethos-u65-512"]
    fam = c16_fam.families(ctx.tier)
    n_constraints = len(rep["generic"]) + sum(len(v) for v in rep["specific"].values())
    unknown_texts = set()
    for t, _ in rep["generic"]:
        if t not in c16_pred.P:
            unknown_texts.add(t)
    for op, ts in rep["specific"].items():
        for t in ts:
            if t not in c16_pred.P:
                unknown_texts.add(t)
    if not rep["ops"]:
        ctx.violation("report-empty", "vela --supported-ops-report produced no operator table", dict(structural=True, key="report-empty"))
    res, _ = isolate.run_forked(_structural_child, (), timeout=120)
    if res[0] == "ok":
        for k, w in res[1]:
            ctx.violation("structural|" + k, w, dict(structural=True, key=k))
    else:
        ctx.counters["structural_failed"] = 1
    items = [(n, m, s, dict(acc=a), rep) for n, m, s in fam for a in accs]
    seen = set()
    ops_seen = {}
    cons_decided = {}
    notes, samples = [], []
    for r in pmap(_shard, items):
        st = r["status"]
        ctx.counters["instances"] = ctx.counters.get("instances", 0) + 1
        ctx.counters["status:" + st] = ctx.counters.get("status:" + st, 0) + 1
        if st in ("judged", "undecided"):
            ctx.counters["placed:%s" % r["placed"]] = ctx.counters.get("placed:%s" % r["placed"], 0) + 1
        if st == "judged":
            ctx.counters["expect:%s" % r["expect"]] = ctx.counters.get("expect:%s" % r["expect"], 0) + 1
            ops_seen.setdefault(r["op"], set()).add(r["expect"])
            for t in r["violated"]:
                cons_decided[(r["op"], t)] = cons_decided.get((r["op"], t), 0) + 1
        if st != "judged" or r.get("placed") in ("?", "gone"):
            notes.append({k: r.get(k) for k in ("name", "acc", "status", "expect", "placed", "why", "undecided", "violated", "refused")})
        elif len(samples) < 6 and r["name"].split(".")[0] not in [x["instance"].split(".")[0] for x in samples]:
            samples.append(dict(instance=r["name"], accelerator=r["acc"], operator=r["op"], expected=r["expect"], placed=r["placed"], violated=r["violated"]))
        if r.get("key"):
            k = r["key"]
            if (k, r["acc"]) in seen:
                continue
            seen.add((k, r["acc"]))
            ctx.violation(k, "%s  [instance %s on %s]" % (r["what"], r["name"], r["acc"]), dict(name=r["name"], acc=r["acc"], tier=ctx.tier))
    both = sorted(o for o, e in ops_seen.items() if e == {"cpu", "npu"})
    if os.environ.get("C16_DUMP"):
        for r in notes:
            print("NOTE", r)
    return ctx.finish(
        "exploration",
        dict(evaluations=ctx.counters.get("instances", 0), distinct_nontrivial=ctx.counters.get("status:judged", 0), exhaustive=True,
             rule="every instance of the operator lattices (%d instances: boundary values inside/outside each documented range, allowed/forbidden categorical values; alone and between two "
                  "accelerated convolutions) x %s, each compiled by vela.main; constraint sentences taken from the report generated by the tree under test (%d sentences, %d without a predicate); "
                  "non-trivial = instances with a clear expectation (all listed constraints clearly satisfied, or one clearly violated)" % (len(fam), accs, n_constraints, len(unknown_texts)),
             samples=samples, operators_judged_both_ways=both, operators_judged=sorted(ops_seen), listed_constraints_violated_by_some_instance=len(cons_decided),
             sentences_without_predicate=sorted(unknown_texts)[:40], counters=dict(ctx.counters)),
        ["a constraint sentence is asserted only where its wording decides the instance; instances for which a sentence is ambiguous are compiled but not judged (status undecided)",
         "'placed on the NPU' = the operator is no longer among the CPU operators of the output graph and an Ethos-U operator exists; 'unchanged' = same builtin code, version, options and operand/result tensor shapes, types and quantisation",
         "instances that crash or are rejected by the compiler are C13's subject and are counted, not judged"])
