"""C19 - lookup tables and compile-time fixed-point maths match their reference functions.

(a) fp_math helpers vs gemmlowp definitions on unbounded Python ints: exhaustive over int16 x boundary operands, boundary
    products for 32 bit, all Q5.26 inputs with the low 14 bits zero for exp_on_negative_values; every operand type the call
    sites use (int, np.int16/32/64).
(b) constant folding of QUANTIZE (optimise_quantize): all int8 constants x (scale ratio, zero point) lattice; float constants at
    every half-integer multiple of the scale.
(c) 8-bit activation tables (sigmoid, tanh, leaky relu, hard-swish): single-operator networks over a quantisation lattice are
    compiled, the 256-byte table is taken from the output file (the bytes the DMA loads into SHRAM) and every code is compared."""
import itertools
import math

import numpy as np

from .. import compile as C
from .. import core, isolate, outfile
from ..isolate import pmap
from ..npu import decode as D
from ..ref import quant as Q
from ..tfl import build

I32_MIN, I32_MAX = -(1 << 31), (1 << 31) - 1
I16_MIN, I16_MAX = -(1 << 15), (1 << 15) - 1


def boundary32():
    v = {0, 1, -1, I32_MIN, I32_MAX, I32_MIN + 1, I32_MAX - 1}
    for k in range(1, 31):
        for d in (-1, 0, 1):
            v.add((1 << k) + d)
            v.add(-(1 << k) + d)
    v |= {715827883, 1895147668, 1672461947, 1302514674, 790015084, 290630308, 39332535, 720401, 242, 123456789, -987654321}
    return sorted(x for x in v if I32_MIN <= x <= I32_MAX)


def boundary16():
    v = {0, 1, -1, I16_MIN, I16_MAX, I16_MIN + 1, I16_MAX - 1, 3, -3, 12345, -12345}
    for k in range(1, 15):
        for d in (-1, 0, 1):
            v.add((1 << k) + d)
            v.add(-(1 << k) + d)
    return sorted(x for x in v if I16_MIN <= x <= I16_MAX)


def _call(fn, *args):
    try:
        r = fn(*args)
        return int(r)
    except Exception as e:
        return "%s: %s" % (type(e).__name__, str(e)[:80])


def _fp16_shard(args):
    lo, hi = args
    core.bind_repo(need_codec=False)
    from ethosu.vela import fp_math

    b16 = boundary16()
    bad = []
    n = 0
    convs = [int, np.int16, np.int32]
    for a in range(lo, hi):
        for b in b16:
            e1 = Q.srdhm16(a, b)
            e2 = Q.sat_mul16(a, b)
            for ci, conv in enumerate(convs):
                # operand type pairs as the call sites use them (both converted, or mixed int / numpy)
                aa, bb = conv(a), (conv(b) if ci != 1 else int(b))
                n += 2
                g1 = _call(fp_math.saturating_rounding_mul16, aa, bb)
                g2 = _call(fp_math.saturating_mul16, aa, bb)
                if g1 != e1:
                    bad.append(("saturating_rounding_mul16", conv.__name__, a, b, g1, e1))
                if g2 != e2:
                    bad.append(("saturating_mul16", conv.__name__, a, b, g2, e2))
        for off in range(0, 16):
            n += 1
            g = _call(fp_math.shift_left16, np.int16(a) if a % 2 else a, off)
            e = max(I16_MIN, min(I16_MAX, a * (1 << off)))
            if g != e:
                bad.append(("shift_left16", "mixed", a, off, g, e))
        if len(bad) > 30:
            break
    return n, bad


def _fp32_shard(args):
    xs = args
    core.bind_repo(need_codec=False)
    from ethosu.vela import fp_math

    b32 = boundary32()
    bad = []
    n = 0
    for a in xs:
        for b in b32:
            e = Q.srdhm(a, b)
            for conv in (int, np.int32, np.int64):
                n += 1
                g = _call(fp_math.saturating_rounding_mul32, conv(a), conv(b))
                if g != e:
                    bad.append(("saturating_rounding_mul32", conv.__name__, a, b, g, e))
        for ex in range(0, 32):
            for conv in (int, np.int32, np.int64):
                n += 1
                g = _call(fp_math.rounding_divide_by_pot, conv(a), ex)
                e = Q.rdbp(a, ex)
                if g != e:
                    bad.append(("rounding_divide_by_pot", conv.__name__, a, ex, g, e))
            n += 1
            g = _call(fp_math.shift_left32, a, ex)
            e = max(I32_MIN, min(I32_MAX, a * (1 << ex)))
            if g != e:
                bad.append(("shift_left32", "int", a, ex, g, e))
        n += 1
        g = _call(fp_math.downscale_multiplier_int32_to_int16, a)
        e = Q.downscale32to16(a)
        if g != e:
            bad.append(("downscale_multiplier_int32_to_int16", "int", a, 0, g, e))
        # quantised multiply as used by the LUT / constant-folding code
        if abs(a) < (1 << 20):
            for m, sh in ((1 << 30, 30), (1518500250, 31), ((1 << 31) - 1, 33), (1 << 30, 24), (1342177280, 40)):
                n += 1
                g = _call(fp_math.multiply_by_quantized_multiplier, a, m, sh)
                e = Q.mbqm_vela(a, m, sh)
                if g != e:
                    bad.append(("multiply_by_quantized_multiplier", "int", a, (m, sh), g, e))
        if len(bad) > 30:
            break
    return n, bad


def _exp_shard(args):
    lo, hi, step = args
    core.bind_repo(need_codec=False)
    from ethosu.vela import fp_math

    bad = []
    n = 0
    for k in range(lo, hi, step):
        a = -(k << 14)
        if a < I32_MIN:
            break
        for conv in (int, np.int32):
            n += 1
            g = _call(fp_math.exp_on_negative_values, conv(a))
            e = Q.exp_on_negative_values(a)
            if g != e:
                bad.append(("exp_on_negative_values", conv.__name__, a, 0, g, e))
        if len(bad) > 10:
            break
    return n, bad


# (b) -------------------------------------------------------------------------------------------
def _quantize_fold(values, in_dtype, in_scale, in_zp, out_dtype, out_scale, out_zp, second=None):
    """folds QUANTIZE(const).  With second=(scale, zp) the constant has a SECOND requantising consumer that is folded after the first one: the
    values of that second fold are returned together with the constant's own values after both folds (a third reader would see those)."""
    core.bind_repo(need_codec=False)
    from ethosu.vela import tflite_graph_optimiser as tgo
    from ethosu.vela.data_type import DataType
    from ethosu.vela.operation import Op, Operation
    from ethosu.vela.tensor import QuantizationParameters, Tensor, create_const_tensor

    dts = {"int8": DataType.int8, "int16": DataType.int16, "float32": DataType.float32}
    q_in = None
    if in_dtype != "float32":
        q_in = QuantizationParameters(scale_f32=np.float32(in_scale), zero_point=in_zp)
    ifm = create_const_tensor("c", [len(values)], dts[in_dtype], list(values), quantization=q_in)
    ofm = Tensor([len(values)], dts[out_dtype], "o")
    ofm.quantization = QuantizationParameters(scale_f32=np.float32(out_scale), zero_point=out_zp)
    info = np.iinfo(out_dtype)
    ofm.quantization.quant_min, ofm.quantization.quant_max = info.min, info.max
    op = Operation(Op.Quantize, "q")
    op.add_input_tensor(ifm)
    op.set_output_tensor(ofm)
    op.run_on_npu = True
    op.set_ifm_ofm_shapes()
    if second is not None:
        ofm2 = Tensor([len(values)], dts[out_dtype], "o2")
        ofm2.quantization = QuantizationParameters(scale_f32=np.float32(second[0]), zero_point=second[1])
        ofm2.quantization.quant_min, ofm2.quantization.quant_max = info.min, info.max
        op2 = Operation(Op.Quantize, "q2")
        op2.add_input_tensor(ifm)
        op2.set_output_tensor(ofm2)
        op2.run_on_npu = True
        op2.set_ifm_ofm_shapes()
    tgo.optimise_quantize(op, None, None)
    if op.type != Op.Const or ofm.values is None:
        return None
    if second is not None:
        tgo.optimise_quantize(op2, None, None)
        if op2.type != Op.Const or ofm2.values is None:
            return None
        return [int(v) for v in np.asarray(ofm2.values).flatten()], [int(v) for v in np.asarray(ifm.values).flatten()]
    return [int(v) for v in np.asarray(ofm.values).flatten()]


def _quant_shard(args):
    kind, params = args
    bad = []
    n = 0
    if kind == "int8":
        in_scale, in_zp, out_scale, out_zp = params
        vals = list(range(-128, 128))
        got = _quantize_fold(vals, "int8", in_scale, in_zp, "int8", out_scale, out_zp)
        n = len(vals)
        if got is None:
            return n, [("optimise_quantize", "int8", params, "not folded")]
        eff = float(np.float64(np.float32(in_scale)) / np.float64(np.float32(out_scale)))
        m, e = Q.quantize_multiplier(eff)
        for v, g in zip(vals, got):
            exp = max(-128, min(127, Q.mbqm(v - in_zp, m, e) + out_zp))
            if g != exp:
                bad.append(("optimise_quantize", "int8", params, "const %d folded to %d, reference requantise gives %d" % (v, g, exp)))
                break
        # the same constant read by a second QUANTIZE (other output quantisation) and by a third operator: every fold starts from the constant
        sec = (float(np.float32(in_scale)) * 0.75, max(-128, min(127, in_zp + 1)))
        r2 = _quantize_fold(vals, "int8", in_scale, in_zp, "int8", out_scale, out_zp, second=sec)
        n += len(vals)
        if r2 is None:
            bad.append(("optimise_quantize", "int8-second-consumer", params, "not folded"))
        else:
            got2, kept = r2
            m2, e2 = Q.quantize_multiplier(float(np.float64(np.float32(in_scale)) / np.float64(np.float32(sec[0]))))
            if kept != vals:
                bad.append(("optimise_quantize", "int8-second-consumer", params, "the constant itself changed while its QUANTIZE consumers were folded: %s... became %s..." % (vals[:4], kept[:4])))
            else:
                for v, g in zip(vals, got2):
                    exp = max(-128, min(127, Q.mbqm(v - in_zp, m2, e2) + sec[1]))
                    if g != exp:
                        bad.append(("optimise_quantize", "int8-second-consumer", params, "const %d folded to %d by the second consumer, reference requantise gives %d" % (v, g, exp)))
                        break
    elif kind == "int16":
        in_scale, in_zp, out_scale, out_zp = params
        vals = list(range(-32768, 32768, 7)) + [32767]
        got = _quantize_fold(vals, "int16", in_scale, in_zp, "int16", out_scale, out_zp)
        n = len(vals)
        if got is None:
            return n, [("optimise_quantize", "int16", params, "not folded")]
        eff = float(np.float64(np.float32(in_scale)) / np.float64(np.float32(out_scale)))
        m, e = Q.quantize_multiplier(eff)
        for v, g in zip(vals, got):
            exp = max(-32768, min(32767, Q.mbqm(v - in_zp, m, e) + out_zp))
            if g != exp:
                bad.append(("optimise_quantize", "int16", params, "const %d folded to %d, reference requantise gives %d" % (v, g, exp)))
                break
    else:
        out_scale, out_zp = params
        s = float(np.float32(out_scale))
        # every half-integer multiple of the scale in (and just beyond) the int8 range, and +-1 float32 ulp around it
        vals = []
        for k2 in range(-2 * 130, 2 * 130 + 1):
            x = np.float32(k2 * 0.5 * s)
            vals += [x, np.nextafter(x, np.float32(np.inf)), np.nextafter(x, np.float32(-np.inf))]
        vals = [float(v) for v in vals]
        got = _quantize_fold([np.float32(v) for v in vals], "float32", None, 0, "int8", out_scale, out_zp)
        n = len(vals)
        if got is None:
            return n, [("optimise_quantize", "float32", params, "not folded")]
        for v, g in zip(vals, got):
            # reference AffineQuantize: round-half-away(float32(v) / float32(scale)) + zp, clamped (evaluated in float32)
            r = float(np.float32(v) / np.float32(out_scale))
            exp = int(math.floor(abs(r) + 0.5)) * (1 if r >= 0 else -1) + out_zp
            exp = max(-128, min(127, exp))
            if g != exp:
                bad.append(("optimise_quantize", "float32", params, "const %r folded to %d, reference quantise gives %d" % (v, g, exp)))
                break
    return n, bad


# (c) -------------------------------------------------------------------------------------------
PRELU_ALPHA_Q = (0.0078125, 10)   # scale and zero point of the constant alpha tensor of the PRELU cases
PRELU_ALPHA_CODE = 42              # every channel: alpha = 0.0078125 * (42 - 10) = 0.25


def lut_model(opname, dtype, in_q, out_q, alpha=None):
    if opname == "PRELU":
        t_in = dict(name="input", shape=[1, 4, 4, 8], dtype=dtype, quant=dict(scale=[in_q[0]], zp=[in_q[1]]), data=None)
        t_a = dict(name="alpha", shape=[1, 1, 8], dtype=dtype, quant=dict(scale=[PRELU_ALPHA_Q[0]], zp=[PRELU_ALPHA_Q[1] + (128 if dtype == "uint8" else 0)]),
                   data=np.full([1, 1, 8], PRELU_ALPHA_CODE + (128 if dtype == "uint8" else 0), dtype=dtype))
        t_out = dict(name="output", shape=[1, 4, 4, 8], dtype=dtype, quant=dict(scale=[out_q[0]], zp=[out_q[1]]), data=None)
        return dict(subgraphs=[dict(name="main", tensors=[t_in, t_a, t_out], inputs=[0], outputs=[2], ops=[dict(op="PRELU", inputs=[0, 1], outputs=[2], opts=None)])])
    t_in = dict(name="input", shape=[1, 4, 4, 8], dtype=dtype, quant=dict(scale=[in_q[0]], zp=[in_q[1]]), data=None)
    t_out = dict(name="output", shape=[1, 4, 4, 8], dtype=dtype, quant=dict(scale=[out_q[0]], zp=[out_q[1]]), data=None)
    opts = None
    if opname == "LEAKY_RELU":
        opts = ("LeakyReluOptions", dict(Alpha=alpha))
    elif opname == "HARD_SWISH":
        opts = ("HardSwishOptions", {})
    elif opname == "EXP":
        opts = ("ExpOptions", {})
    elif opname in ("GELU", "GELU_TANH"):
        opts = ("GeluOptions", dict(Approximate=opname == "GELU_TANH"))
        opname = "GELU"
    return dict(subgraphs=[dict(name="main", tensors=[t_in, t_out], inputs=[0], outputs=[1], ops=[dict(op=opname, inputs=[0], outputs=[1], opts=opts)])])


def _lut_child(case):
    mb = build.serialise(lut_model(case["op"], case["dtype"], case["in_q"], case["out_q"], case.get("alpha")))
    rec = C.compile_main(mb, dict(acc=case.get("acc", "ethos-u55-128")))
    if rec["status"] != 0 or rec["out"] is None:
        return dict(table=None, why="not compiled")
    an = outfile.analyse(rec["out"])
    for n in an["npu"]:
        _, _, words, _ = D.parse_payload(n["payload"])
        ops, _ = D.decode(words)
        for op in ops:
            if op.kind == "dma":
                d = D.dma_of(op)
                if d["dst_region"] == D.SHRAM_REGION and d["src_region"] == 0 and d["length"] == 256:
                    return dict(table=list(n["flash"][d["src"]:d["src"] + 256]))
    return dict(table=None, why="no 256-byte table DMA in the stream")


def lut_expected(case):
    """per code: set of acceptable values."""
    dtype = case["dtype"]
    s_in, zp_in = float(np.float32(case["in_q"][0])), case["in_q"][1]
    s_out, zp_out = float(np.float32(case["out_q"][0])), case["out_q"][1]
    lo, hi = (0, 255) if dtype == "uint8" else (-128, 127)
    out = []
    for x in range(lo, hi + 1):
        real = s_in * (x - zp_in)
        op = case["op"]
        acc = set()
        if op == "LOGISTIC":
            y = 1.0 / (1.0 + math.exp(-real)) if real > -700 else 0.0
        elif op == "TANH":
            y = math.tanh(real)
        elif op == "LEAKY_RELU":
            a = float(np.float32(case["alpha"]))
            y = real if real >= 0 else a * real
            acc.add(max(lo, min(hi, Q.leaky_relu_ref(x, zp_in, zp_out, s_in, s_out, a))))
        elif op == "HARD_SWISH":
            y = real * min(max(real + 3.0, 0.0), 6.0) / 6.0
            acc.add(max(lo, min(hi, Q.hard_swish_ref(x, zp_in, zp_out, s_in, s_out))))
        elif op == "PRELU":
            # TFLite reference PRELU: identity branch requantised by s_in/s_out, negative branch by s_in*s_alpha/s_out on v*(alpha code - zp)
            v = x - zp_in
            if v >= 0:
                m, e = Q.quantize_multiplier(s_in / s_out)
                out.append({max(lo, min(hi, zp_out + Q.mbqm(v, m, e)))})
            else:
                m, e = Q.quantize_multiplier(s_in * float(np.float32(PRELU_ALPHA_Q[0])) / s_out)
                out.append({max(lo, min(hi, zp_out + Q.mbqm(v * (PRELU_ALPHA_CODE - PRELU_ALPHA_Q[1]), m, e)))})
            continue
        elif op == "EXP":
            y = math.exp(min(real, 700.0))
        elif op == "LOG":
            y = math.log(real) if real > 0 else -1e30
        elif op == "SQRT":
            y = math.sqrt(max(real, 0.0))
        elif op == "GELU":
            y = 0.5 * real * (1 + math.erf(real / math.sqrt(2)))
        elif op == "GELU_TANH":
            y = 0.5 * real * (1 + math.tanh(math.sqrt(2 / math.pi) * (real + 0.044715 * real ** 3)))
        r = y / s_out
        f = math.floor(abs(r) + 0.5)
        cands = {f}
        if abs((abs(r) + 0.5) - round(abs(r) + 0.5)) < 1e-4:  # (near-)tie: either neighbour is a correct rounding
            cands |= {f - 1, f + 1}
        for c in cands:
            v = int(c) * (1 if r >= 0 else -1) + zp_out
            acc.add(max(lo, min(hi, v)))
        out.append(acc)
    return out


def lut_cases(tier):
    scales_in = [1 / 256, 1 / 64, 0.0235, 1 / 16, 0.1] if tier == "quick" else [2.0 ** e for e in range(-8, 1)] + [0.0235, 0.0471, 0.1, 0.0039]
    zps = [-128, -3, 0, 5, 127] if tier != "quick" else [-128, -3, 0, 127]
    cases = []
    for op in ("LOGISTIC", "TANH", "LEAKY_RELU", "HARD_SWISH"):
        for dtype in ("int8", "uint8"):
            # HARD_SWISH: one more input scale per binary exponent (the reference kernel takes different shift branches per exponent)
            for s_in in scales_in + ([0.75 * 2.0 ** e for e in range(-10, 1)] if op == "HARD_SWISH" else []):
                for zp in zps:
                    z_in = zp if dtype == "int8" else zp + 128
                    if op == "LOGISTIC":
                        outs = [(1 / 256, -128 if dtype == "int8" else 0)]
                    elif op == "TANH":
                        outs = [(1 / 128, 0 if dtype == "int8" else 128)]
                    else:
                        outs = [(s_in, z_in), (s_in * 1.5, 0 if dtype == "int8" else 128), (s_in / 2, -5 if dtype == "int8" else 100)]
                    alphas = [0.1, 0.01, 0.5, 1.25] if op == "LEAKY_RELU" else [None]
                    if op == "LEAKY_RELU" and tier != "quick":
                        alphas += [2.0, -0.2, 1.0, 3.0]
                    for o in outs:
                        for a in alphas:
                            cases.append(dict(op=op, dtype=dtype, in_q=[s_in, z_in], out_q=[o[0], o[1]], alpha=a))
    # PRELU with a constant alpha that is equal in every channel (lowered to a table), with and without a change of scale
    for dtype in ("int8", "uint8"):
        for s_in in ([0.0235, 0.1] if tier == "quick" else [1 / 64, 0.0235, 0.1, 0.5]):
            z_in = 5 if dtype == "int8" else 133
            for o in ((s_in, z_in), (s_in * 0.5, -20 if dtype == "int8" else 100), (s_in * 1.6, 0 if dtype == "int8" else 128), (s_in * 0.75, z_in)):
                cases.append(dict(op="PRELU", dtype=dtype, in_q=[s_in, z_in], out_q=[o[0], o[1]], alpha=None))
    # functions evaluated through the generic 8-bit table builder (negative results, results far outside the output range)
    for op in ("EXP", "LOG", "SQRT", "GELU", "GELU_TANH"):
        for s_in in ([1 / 64, 0.0235, 0.1] if tier == "quick" else [2.0 ** e for e in range(-7, 0)] + [0.0235, 0.1]):
            for z_in in ((-128, 0, 40) if tier != "quick" else (-128, 0)):
                outs = {"EXP": [(1 / 16, -128), (0.05, -100)], "LOG": [(1 / 32, 0), (0.05, 20)], "SQRT": [(1 / 64, -128), (0.02, -50)]}.get(op, [(s_in, z_in), (s_in / 2, -5)])
                for o in outs:
                    cases.append(dict(op=op, dtype="int8", in_q=[s_in, z_in], out_q=[o[0], o[1]], alpha=None))
    return cases


def _lut_shard(cases):
    core.bind_repo()
    out = []
    for case in cases:
        res, text = isolate.run_forked(_lut_child, (case,), timeout=120)
        if res[0] != "ok":
            out.append((case, "crash", None))  # C13's business
            continue
        tab = res[1]["table"]
        if tab is None:
            out.append((case, "notable:" + res[1]["why"], None))
            continue
        exp = lut_expected(case)
        signed = case["dtype"] == "int8"
        bad = None
        for i, (b, acc) in enumerate(zip(tab, exp)):
            v = b - 256 if signed and b > 127 else b
            if v not in acc:
                code = i - 128 if signed else i
                bad = "code %d -> %d, acceptable %s" % (code, v, sorted(acc))
                break
        out.append((case, "bad" if bad else "ok", bad))
    return out


def replay(ctx, case):
    kind = case.get("kind")
    if kind == "lut":
        out = _lut_shard([case["case"]])
        return [out[0][2]] if out[0][1] == "bad" else []
    if kind == "softmax_exp":
        n, bad = _softmax_exp_shard((case["beta"], [case["scale"]]))
        return ["entry %d = %s, reference %s" % (b[2], b[3], b[4]) for b in bad]
    if kind == "quant":
        n, bad = _quant_shard((case["qkind"], tuple(case["params"])))
        return [str(b) for b in bad]
    if kind == "fp":
        core.bind_repo(need_codec=False)
        from ethosu.vela import fp_math

        fn = getattr(fp_math, case["fn"])
        conv = {"int": int, "int16": np.int16, "int32": np.int32, "int64": np.int64, "mixed": int}[case["conv"]]
        args = [conv(case["a"])] + ([] if case["fn"] in ("downscale_multiplier_int32_to_int16", "exp_on_negative_values") else
                                      (list(case["b"]) if isinstance(case["b"], (list, tuple)) else [conv(case["b"]) if case["fn"].endswith(("mul16", "mul32")) else case["b"]]))
        g = _call(fn, *args)
        return ["%s%s = %s, reference %s" % (case["fn"], tuple(args), g, case["exp"])] if g != case["exp"] else []
    return []


def run(ctx):
    core.bind_repo()
    quick = ctx.tier == "quick"
    # (a)
    a_vals = list(range(I16_MIN, I16_MAX + 1))
    chunks = [a_vals[i:i + 1024] for i in range(0, len(a_vals), 1024)]

    def rep(fn, conv, a, b, g, e):
        key = "fp_math|%s|%s|%s" % (fn, conv, "raises" if isinstance(g, str) else "wrong-value")
        ctx.violation(key, "%s(%s, %s) [%s operands] = %s, gemmlowp reference = %s" % (fn, a, b, conv, g, e), dict(kind="fp", fn=fn, conv=conv, a=a, b=b, exp=e))

    for n, bad in pmap(_fp16_list_shard, chunks):
        ctx.count("fp16_calls", n)
        for b in bad:
            rep(*b)
    b32 = boundary32()
    for n, bad in pmap(_fp32_shard, [b32[i:i + 8] for i in range(0, len(b32), 8)]):
        ctx.count("fp32_calls", n)
        for b in bad:
            rep(*b)
    step = 4 if quick else 1
    for n, bad in pmap(_exp_shard, [(lo, min(lo + 4096, (1 << 17) + 1), step) for lo in range(0, (1 << 17) + 1, 4096)]):
        ctx.count("exp_calls", n)
        for b in bad:
            rep(*b)
    # (b)
    qshards = []
    ratios = [0.5, 1.0, 2.0, 0.3, 1.7, 0.999] if quick else [0.25, 0.5, 1.0, 2.0, 4.0, 0.3, 1.7, 0.999, 1.001, 3.3]
    for r in ratios:
        for zi, zo in ((0, 0), (-3, 5), (127, -128), (-128, 127)):
            qshards.append(("int8", (0.02 * r, zi, 0.02, zo)))
            if not quick or (zi, zo) == (0, 0):
                qshards.append(("int16", (0.001 * r, 0, 0.001, 0)))
    for s in (1.0, 0.5, 0.1, 0.0235, 3.0):
        for zp in (0, -128, 5):
            qshards.append(("float32", (s, zp)))
    for n, bad in pmap(_quant_shard, qshards):
        ctx.count("quantize_consts", n)
        for fn, kind, params, what in bad:
            ctx.violation("optimise_quantize|%s|%s" % (kind, what.split(",")[0][:60] if kind != "float32" else "rounding"), "%s %s: %s" % (kind, params, what),
                          dict(kind="quant", qkind=kind, params=list(params)))
    # (c)
    cases = lut_cases(ctx.tier)
    stat = {}
    for out in pmap(_lut_shard, [cases[i:i + 8] for i in range(0, len(cases), 8)]):
        for case, verdict, what in out:
            stat[verdict.split(":")[0]] = stat.get(verdict.split(":")[0], 0) + 1
            if verdict == "bad":
                ctx.violation("lut|%s|%s|in=%s|out=%s|alpha=%s" % (case["op"], case["dtype"], case["in_q"], case["out_q"], case.get("alpha")),
                              "%s %s table: %s" % (case["op"], case["dtype"], what), dict(kind="lut", case=case))
    ctx.merge_counters({"lut_" + k: v for k, v in stat.items()})
    # (d) the 256-entry exponential table of the 8-bit SOFTMAX lowering
    betas = [0.5, 1.0, 2.0] if quick else [0.125, 0.25, 0.5, 1.0, 2.0, 4.0, 0.7]
    scales = [2.0 ** e for e in range(-8, 3)] + [0.0235, 0.1, 0.9, 1.5, 3.0, 0.75]
    for n, bad in pmap(_softmax_exp_shard, [(b, scales) for b in betas]):
        ctx.count("softmax_exp_entries", n)
        for beta, scale, code, got, exp in bad:
            ctx.violation("softmax_exp|beta=%s|scale=%s" % (beta, scale), "SOFTMAX exp table (beta %s, input scale %s): entry %d (input_diff %d) = %s, TFLite reference = %s" % (beta, scale, code, code - 255, got, exp),
                          dict(kind="softmax_exp", beta=beta, scale=scale))
    if stat.get("ok", 0) == 0:
        ctx.inconclusive = "no table could be extracted"
    c = ctx.counters
    cov = dict(
        evaluations=c.get("fp16_calls", 0) + c.get("fp32_calls", 0) + c.get("exp_calls", 0) + c.get("quantize_consts", 0) + 256 * stat.get("ok", 0),
        distinct_nontrivial=len(a_vals) + len(b32) + stat.get("ok", 0),
        rule="(a) 16-bit helpers on %d int16 values x %d boundary operands x {int,np.int16,np.int32}; 32-bit helpers on %d boundary values squared and exponents 0..31; exp on every %s Q5.26 input with low 14 bits zero; "
             "(b) QUANTIZE folding of all int8 / strided int16 constants and float constants at every half-integer multiple of the scale +-1ulp; (c) all 256 codes of %d compiled tables" % (
                 len(a_vals), len(boundary16()), len(b32), "4th" if quick else "", stat.get("ok", 0)),
        samples=[cases[0], dict(fn="saturating_rounding_mul16", a=-32768, b=-32768)],
        exhaustive=True,
        lut_tables=stat,
        bound="all int16 x boundary operands; 32-bit boundary lattice; exp inputs with stride %d over the 2^17 lattice" % step,
    )
    return ctx.finish("exploration", cov, ["gemmlowp semantics written from the public definitions (vfw/ref/quant.py)",
                                          "table entries within 1e-4 LSB of a rounding tie accept either neighbour; hard-swish and leaky-relu entries may equal the TFLite integer reference kernel instead of the rounded real function"])


def softmax_exp_reference(beta, scale):
    """TFLite reference 8-bit Softmax: PreprocessSoftmaxScaling + CalculateInputRadius + exp_on_negative_values (kScaledDiffIntegerBits = 5)"""
    real = min(float(beta) * float(scale) * (1 << 26), float((1 << 31) - 1))
    m, left = Q.quantize_multiplier(real)
    if left < 0:
        return None
    diff_min = -int(math.floor(1.0 * 31 * (1 << 26) / (1 << left)))
    tab = []
    for x in range(256):
        d = x - 255
        if d >= diff_min:
            tab.append(Q.exp_on_negative_values(Q.srdhm(d * (1 << left), m)))
        else:
            tab.append(0)
    return tab


def _softmax_exp_tables(beta, scales):
    from ethosu.vela.softmax import SoftMax

    out = []
    for sc in scales:
        try:
            got = [int(v) for v in SoftMax(None).generate_exp_table(beta, np.float32(sc))]
        except Exception as e:  # noqa
            got = "%s: %s" % (type(e).__name__, str(e)[:80])
        out.append((sc, got))
    return out


def _softmax_exp_shard(args):
    beta, scales = args
    core.bind_repo()
    n = 0
    bad = []
    for sc, got in _softmax_exp_tables(beta, scales):
        exp = softmax_exp_reference(beta, float(np.float32(sc)))
        if exp is None:
            continue
        n += 256
        if isinstance(got, str):
            bad.append((beta, sc, 0, got, exp[0]))
            continue
        for i, (g, e) in enumerate(zip(got, exp)):
            if g != e:
                bad.append((beta, sc, i, g, e))
                break
    return n, bad


def _fp16_list_shard(vals):
    bad_all = []
    n_all = 0
    # contiguous runs
    vals = list(vals)
    i = 0
    while i < len(vals):
        j = i
        while j + 1 < len(vals) and vals[j + 1] == vals[j] + 1:
            j += 1
        n, bad = _fp16_shard((vals[i], vals[j] + 1))
        n_all += n
        bad_all += bad
        i = j + 1
    return n_all, bad_all
