"""C16 helper: operator instance families - each value lattice contains, for every documented numeric range, the last value
inside and the first value outside, and for every categorical constraint one allowed and one forbidden value.

families(tier) -> [(name, model dict, subject op index)]"""
import numpy as np

from ..tfl import nets

SAME, VALID = nets.PAD_SAME, nets.PAD_VALID


def _net(shape, dtype="int8", noquant=False):
    n = nets.Net(0)
    x = n.act(list(shape), dtype, name="input", noquant=noquant)
    n.inputs.append(x)
    n.open.append(x)
    n.cur = x
    return n, x


def _out(i, k, s, d, same):
    dk = d * (k - 1) + 1
    return -(-i // s) if same else ((i - dk) // s + 1 if i >= dk else 0)


def _wrap_pre(n):
    nets._conv_like(n, "conv", 1, 1, SAME, "NONE")


def _wrap_post(n):
    if len(n.T(n.cur)["shape"]) == 4 and n.T(n.cur)["dtype"] in ("int8", "uint8", "int16"):
        nets._conv_like(n, "conv", 1, 1, SAME, "NONE")


def conv(kind="conv", ifm=(1, 16, 16, 8), k=(3, 3), s=(1, 1), d=(1, 1), same=True, dt="int8", wdt=None, bias="int32", act=0, cout=8, dm=1, wvalue=None,
         dynw=False, per_channel=False, bias_shape=None, wrap=False, bias_values=None):
    n, x = _net(ifm, dt)
    if wrap:
        _wrap_pre(n)
        x = n.cur
    N, H, W, C = n.T(x)["shape"]
    kh, kw = k
    sh, sw = s
    dh, dw = d
    oh, ow = _out(H, kh, sh, dh, same), _out(W, kw, sw, dw, same)
    if oh <= 0 or ow <= 0:
        return None
    wdt = wdt or ("uint8" if dt == "uint8" else "int8")
    if kind == "conv":
        wshape = [cout, kh, kw, C]
    else:
        cout = C * dm
        wshape = [1, kh, kw, cout]
    nsc = cout if per_channel else 1
    wsc = [0.004 + 0.0007 * (i % 5) for i in range(nsc)]
    wzp = 128 if wdt == "uint8" else 0
    if dynw:
        wi = n.act(wshape, wdt, q=(wsc[0], wzp), name="dynw")
        n.inputs.append(wi)
    else:
        if wvalue == "alt127":
            vals = np.where(np.arange(int(np.prod(wshape))) % 2 == 0, 127, -127).reshape(wshape)
        else:
            vals = None if wvalue is None else np.full(wshape, wvalue)
        wi = n.const(wshape, wdt, "weights", scale=wsc, zp=wzp, values=vals)
        if per_channel and kind != "conv":
            n.T(wi)["quant"]["qdim"] = 3
    ins = [x, wi]
    if bias:
        bs = bias_shape or [cout]
        bi = n.const(bs, bias, "bias", scale=[n.scale(x) * v for v in wsc], zp=0, values=bias_values)
        ins.append(bi)
    else:
        ins.append(-1)
    y = n.act([N, oh, ow, cout], dt)
    pad = SAME if same else VALID
    if kind == "conv":
        n.op("CONV_2D", ins, [y], ("Conv2DOptions", dict(Padding=pad, StrideW=sw, StrideH=sh, FusedActivationFunction=act, DilationWFactor=dw, DilationHFactor=dh)), version=3 if per_channel else 1)
    else:
        n.op("DEPTHWISE_CONV_2D", ins, [y], ("DepthwiseConv2DOptions", dict(Padding=pad, StrideW=sw, StrideH=sh, DepthMultiplier=dm, FusedActivationFunction=act, DilationWFactor=dw, DilationHFactor=dh)),
             version=3 if per_channel else 1)
    subj = len(n.ops) - 1
    if wrap:
        _wrap_post(n)
    return n.model(), subj


def _conv_noquant():
    r = conv("conv")
    if r is None:
        return None
    m, subj = r
    sg = m["subgraphs"][0]
    sg["tensors"][sg["ops"][subj]["outputs"][0]]["quant"] = None
    return m, subj


def pool(op="MAX_POOL_2D", ifm=(1, 16, 16, 8), k=(2, 2), s=(2, 2), same=False, dt="int8", odt=None, act=0, wrap=False):
    n, x = _net(ifm, dt)
    if wrap:
        _wrap_pre(n)
        x = n.cur
    N, H, W, C = n.T(x)["shape"]
    oh, ow = _out(H, k[0], s[0], 1, same), _out(W, k[1], s[1], 1, same)
    if oh <= 0 or ow <= 0:
        return None
    odt = odt or dt
    y = n.act([N, oh, ow, C], odt, q=(n.scale(x), n.zp(x)) if odt == dt else None)
    n.op(op, [x], [y], ("Pool2DOptions", dict(Padding=SAME if same else VALID, StrideW=s[1], StrideH=s[0], FilterWidth=k[1], FilterHeight=k[0], FusedActivationFunction=act)))
    subj = len(n.ops) - 1
    if wrap:
        _wrap_post(n)
    return n.model(), subj


def binary(op="ADD", a=(1, 8, 8, 8), b=(1, 8, 8, 8), o=None, adt="int8", bdt=None, odt=None, bconst=False, act=0, match_q=None, noquant=False, wrap=False):
    n, x = _net(a, adt, noquant=noquant)
    if wrap:
        _wrap_pre(n)
        x = n.cur
    bdt = bdt or adt
    odt = odt or adt
    if bconst:
        s_, z_ = n.qparams(bdt) if bdt in ("int8", "uint8", "int16") else (1.0, 0)
        y2 = n.const(list(b), bdt, "data", scale=None if noquant else [s_], zp=z_, lo=-5 if bdt != "uint8" else 0, hi=5)
    else:
        y2 = n.act(list(b), bdt, name="input2", noquant=noquant)
        n.inputs.append(y2)
    if o is None:
        o = list(np.broadcast_shapes(tuple(n.T(x)["shape"]), tuple(b)))
    y = n.act(list(o), odt, noquant=noquant)
    if match_q is None:
        match_q = op in ("MINIMUM", "MAXIMUM")
    if match_q and not noquant:
        q = dict(scale=[n.scale(x)], zp=[n.zp(x)])
        n.T(y)["quant"] = dict(q)
        n.T(y2)["quant"] = dict(q)
    optname = {"ADD": "AddOptions", "SUB": "SubOptions", "MUL": "MulOptions", "MINIMUM": "MaximumMinimumOptions", "MAXIMUM": "MaximumMinimumOptions"}[op]
    opts = (optname, dict(FusedActivationFunction=act)) if op in ("ADD", "SUB", "MUL") else (optname, {})
    n.op(op, [x, y2], [y], opts)
    subj = len(n.ops) - 1
    if wrap:
        _wrap_post(n)
    return n.model(), subj


UNARY_OPTS = {"ABS": ("AbsOptions", {}), "LEAKY_RELU": ("LeakyReluOptions", dict(Alpha=0.1)), "HARD_SWISH": ("HardSwishOptions", {}), "EXP": ("ExpOptions", {}),
              "QUANTIZE": ("QuantizeOptions", {}), "RELU": None, "RELU6": None, "RELU_N1_TO_1": None, "LOGISTIC": None, "TANH": None, "RSQRT": None}


def unary(op, shape=(1, 8, 8, 8), dt="int8", odt=None, noquant=False, wrap=False):
    n, x = _net(shape, dt, noquant=noquant)
    if wrap:
        _wrap_pre(n)
        x = n.cur
    odt = odt or dt
    q = None
    if odt in ("int8", "uint8", "int16") and not noquant:
        if op == "LOGISTIC":
            q = {"int8": (1 / 256, -128), "uint8": (1 / 256, 0), "int16": (1 / 32768, 0)}[odt]
        elif op == "TANH":
            q = {"int8": (1 / 128, 0), "uint8": (1 / 128, 128), "int16": (1 / 32768, 0)}[odt]
        elif op in ("RELU", "RELU6", "RELU_N1_TO_1", "ABS") and odt == dt:
            q = (n.scale(x), n.zp(x))
    y = n.act(n.T(x)["shape"], odt, q=q, noquant=noquant or odt not in ("int8", "uint8", "int16"))
    n.op(op, [x], [y], UNARY_OPTS[op])
    subj = len(n.ops) - 1
    if wrap:
        _wrap_post(n)
    return n.model(), subj


def mean(shape, axes, keep=True, dt="int8", scalar_axis=False):
    n, x = _net(shape, dt)
    r = len(shape)
    ax = sorted({a % r for a in axes})
    if scalar_axis:
        axt = n.const([], "int32", "data", values=axes[0])
    else:
        axt = n.const([len(axes)], "int32", "data", values=list(axes))
    o = [1 if i in ax else d for i, d in enumerate(shape)] if keep else [d for i, d in enumerate(shape) if i not in ax]
    if not o:
        return None
    y = n.act(o, dt)
    n.op("MEAN", [x, axt], [y], ("ReducerOptions", dict(KeepDims=keep)))
    return n.model(), 0


def resize(op, ihw, ohw, align=False, half=False, dt="int8", c=8, size=None):
    n, x = _net((1, ihw[0], ihw[1], c), dt)
    sz = n.const([2], "int32", "data", values=list(size or ohw))
    y = n.act([1, ohw[0], ohw[1], c], dt, q=(n.scale(x), n.zp(x)))
    oname = "ResizeNearestNeighborOptions" if op == "RESIZE_NEAREST_NEIGHBOR" else "ResizeBilinearOptions"
    n.op(op, [x, sz], [y], (oname, dict(AlignCorners=align, HalfPixelCenters=half)))
    return n.model(), 0


def tconv(ifm=(1, 8, 8, 8), k=(3, 3), s=(2, 2), same=True, dt="int8", ohw=None, cout=8, bias=True):
    n, x = _net(ifm, dt)
    N, H, W, C = ifm
    kh, kw = k
    sh, sw = s
    if ohw is None:
        ohw = (H * sh, W * sw) if same else (H * sh + max(kh - sh, 0), W * sw + max(kw - sw, 0))
    wdt = "uint8" if dt == "uint8" else "int8"
    wi = n.const([cout, kh, kw, C], wdt, "weights", scale=[0.004], zp=0 if wdt == "int8" else 128)
    osh = n.const([4], "int32", "data", values=[N, ohw[0], ohw[1], cout])
    ins = [osh, wi, x]
    if bias:
        ins.append(n.const([cout], "int32" if dt != "int16" else "int64", "bias", scale=[n.scale(x) * 0.004], zp=0))
    y = n.act([N, ohw[0], ohw[1], cout], dt)
    n.op("TRANSPOSE_CONV", ins, [y], ("TransposeConvOptions", dict(Padding=SAME if same else VALID, StrideW=sw, StrideH=sh)), version=3)
    return n.model(), 0


def fc(ishape=(1, 64), units=10, dt="int8", wdt=None, bias="int32", keep=False, oshape=None, dynw=False, per_channel=False):
    n, x = _net(ishape, dt)
    nel = ishape[-1]
    wdt = wdt or ("uint8" if dt == "uint8" else "int8")
    if dynw:
        wi = n.act([units, nel], wdt, q=(0.005, 0), name="dynw")
        n.inputs.append(wi)
    else:
        wsc = [0.004 + 0.0007 * (i % 5) for i in range(units)] if per_channel else [0.005]
        wi = n.const([units, nel], wdt, "weights", scale=wsc, zp=0 if wdt != "uint8" else 128)
    ins = [x, wi]
    ins.append(n.const([units], bias, "bias", scale=[n.scale(x) * 0.005], zp=0) if bias else -1)
    if oshape is None:
        oshape = list(ishape[:-1]) + [units] if keep else [int(np.prod(ishape[:-1])), units]
    y = n.act(oshape, dt)
    n.op("FULLY_CONNECTED", ins, [y], ("FullyConnectedOptions", dict(FusedActivationFunction=0, WeightsFormat=0, KeepNumDims=keep)))
    return n.model(), 0


def softmax(shape=(1, 10), dt="int8", odt=None, beta=1.0, oshape=None):
    n, x = _net(shape, dt)
    odt = odt or dt
    q = {"int8": (1 / 256, -128), "uint8": (1 / 256, 0), "int16": (1 / 32768, 0)}[odt]
    y = n.act(list(oshape or shape), odt, q=q)
    n.op("SOFTMAX", [x], [y], ("SoftmaxOptions", dict(Beta=beta)))
    return n.model(), 0


def argmax(shape=(1, 8, 8, 16), dt="int8", odt="int32", axis=3):
    n, x = _net(shape, dt)
    ax = n.const([], "int32", "data", values=axis)
    r = len(shape)
    o = [d for i, d in enumerate(shape) if i != axis % r]
    y = n.act(o, odt, noquant=True)
    n.op("ARG_MAX", [x, ax], [y], ("ArgMaxOptions", dict(OutputType={"int32": 2, "int64": 4}[odt])))
    return n.model(), 0


def transpose(shape, perm, dt="int8"):
    n, x = _net(shape, dt)
    p = n.const([len(perm)], "int32", "data", values=list(perm))
    o = [shape[i] for i in perm] if len(perm) == len(shape) and all(0 <= i < len(shape) for i in perm) else list(shape)
    y = n.act(o, dt, q=(n.scale(x), n.zp(x)))
    n.op("TRANSPOSE", [x, p], [y], ("TransposeOptions", {}))
    return n.model(), 0


def strided_slice(shape=(1, 8, 8, 8), begin=(0, 1, 0, 0), end=(1, 7, 7, 8), strides=(1, 1, 1, 1), masks=None, dt="int8", offset=False, wrap=False):
    n, x = _net(shape, dt)
    if wrap:
        _wrap_pre(n)
        x = n.cur
    m = dict(BeginMask=0, EndMask=0, EllipsisMask=0, NewAxisMask=0, ShrinkAxisMask=0)
    m.update(masks or {})
    if offset:
        m["Offset"] = True
    b = n.const([len(begin)], "int32", "data", values=list(begin))
    e = n.const([len(end)], "int32", "data", values=list(end))
    s = n.const([len(strides)], "int32", "data", values=list(strides))
    o = []
    for i, d in enumerate(n.T(x)["shape"]):
        bb = 0 if (m["BeginMask"] >> i) & 1 else begin[i]
        ee = d if (m["EndMask"] >> i) & 1 else end[i]
        if (m["ShrinkAxisMask"] >> i) & 1:
            continue
        ln = max(0, -(-(ee - bb) // max(1, strides[i])))
        o.append(ln)
    if not o or any(v <= 0 for v in o):
        o = [max(1, v) for v in o] or [1]
    y = n.act(o, dt, q=(n.scale(x), n.zp(x)))
    n.op("STRIDED_SLICE", [x, b, e, s], [y], ("StridedSliceOptions", m))
    subj = len(n.ops) - 1
    if wrap:
        _wrap_post(n)
    return n.model(), subj


def pad(shape=(1, 8, 8, 8), pads=((0, 0), (1, 1), (1, 1), (0, 0)), pdt="int32", dt="int8", wrap=False):
    n, x = _net(shape, dt)
    if wrap:
        _wrap_pre(n)
        x = n.cur
    p = n.const([len(pads), 2], pdt, "data", values=[list(q) for q in pads])
    shp = n.T(x)["shape"]
    new = [d + a + b for d, (a, b) in zip(shp, pads)] if len(pads) == len(shp) else list(shp)
    y = n.act(new, dt, q=(n.scale(x), n.zp(x)))
    n.op("PAD", [x, p], [y], ("PadOptions", {}))
    subj = len(n.ops) - 1
    if wrap:
        _wrap_post(n)
    return n.model(), subj


def reshape_like(op, shape, new, dt="int8", same_q=True, wrap=False):
    n, x = _net(shape, dt)
    if wrap:
        _wrap_pre(n)
        x = n.cur
    shape = n.T(x)["shape"]
    y = n.act(list(new), dt, q=(n.scale(x), n.zp(x)) if same_q else None)
    if op == "RESHAPE":
        shp = n.const([len(new)], "int32", "data", values=list(new))
        n.op("RESHAPE", [x, shp], [y], ("ReshapeOptions", dict(NewShape=list(new))))
    elif op == "SQUEEZE":
        n.op("SQUEEZE", [x], [y], ("SqueezeOptions", dict(SqueezeDims=[i for i, d in enumerate(shape) if d == 1 and i > 0][:1])))
    else:
        ax = n.const([], "int32", "data", values=1)
        n.op("EXPAND_DIMS", [x, ax], [y], ("ExpandDimsOptions", {}))
    subj = len(n.ops) - 1
    if wrap:
        _wrap_post(n)
    return n.model(), subj


def concat(shape=(1, 8, 8, 8), axis=3, dt="int8", other=None, oshape=None):
    n, x = _net(shape, dt)
    o2 = n.act(list(other or shape), dt, name="input2", q=(n.scale(x), n.zp(x)))
    n.inputs.append(o2)
    r = len(shape)
    if oshape is None:
        oshape = list(shape)
        oshape[axis % r] = shape[axis % r] + (other or shape)[axis % r]
    y = n.act(list(oshape), dt, q=(n.scale(x), n.zp(x)))
    n.op("CONCATENATION", [x, o2], [y], ("ConcatenationOptions", dict(Axis=axis, FusedActivationFunction=0)))
    return n.model(), 0


def split(shape=(1, 8, 8, 8), axis=3, num=2, dt="int8"):
    n, x = _net(shape, dt)
    ax = n.const([], "int32", "data", values=axis)
    r = len(shape)
    a = axis % r if -r <= axis < r else r - 1
    part = list(shape)
    part[a] = max(1, shape[a] // num)
    outs = [n.act(part, dt, q=(n.scale(x), n.zp(x))) for _ in range(num)]
    n.op("SPLIT", [ax, x], outs, ("SplitOptions", dict(NumSplits=num)))
    return n.model(), 0


def with_exempt_branches(model, subj, first):
    """adds three independent operators that are exempt from some generic constraint (QUANTIZE, TRANSPOSE without quantisation
    parameters, ARG_MAX), each on its own graph input; `first` puts their results before the original graph outputs (operators
    are visited from the outputs), otherwise after.  The subject keeps its index."""
    import copy

    m = copy.deepcopy(model)
    sg = m["subgraphs"][0]
    T = sg["tensors"]

    def tens(name, shape, dtype, quant, data=None):
        T.append(dict(name=name, shape=list(shape), dtype=dtype, quant=quant, data=data))
        return len(T) - 1

    q = dict(scale=[0.05], zp=[0])
    a = tens("xq_in", [1, 4, 4, 8], "int8", dict(q))
    b = tens("xq_out", [1, 4, 4, 8], "int8", dict(scale=[0.1], zp=[3]))
    c = tens("xt_in", [1, 4, 6, 8], "int8", None)
    perm = tens("xt_perm", [4], "int32", None, data=np.asarray([0, 2, 1, 3], dtype=np.int32))
    d = tens("xt_out", [1, 6, 4, 8], "int8", None)
    e = tens("xa_in", [1, 4, 4, 8], "int8", dict(q))
    ax = tens("xa_axis", [], "int32", None, data=np.asarray(3, dtype=np.int32))
    f = tens("xa_out", [1, 4, 4], "int32", None)
    extra = [dict(op="QUANTIZE", inputs=[a], outputs=[b], opts=("QuantizeOptions", {}), custom=None, version=1),
             dict(op="TRANSPOSE", inputs=[c, perm], outputs=[d], opts=("TransposeOptions", {}), custom=None, version=1),
             dict(op="ARG_MAX", inputs=[e, ax], outputs=[f], opts=("ArgMaxOptions", dict(OutputType=2)), custom=None, version=1)]
    sg["ops"] = sg["ops"] + extra
    sg["inputs"] = list(sg["inputs"]) + [a, c, e]
    sg["outputs"] = ([b, d, f] + list(sg["outputs"])) if first else (list(sg["outputs"]) + [b, d, f])
    return m, subj


# instances that are additionally compiled next to operators exempt from generic constraints (the checker must not carry an
# exemption from one operator to the next)
EXEMPT_PROBES = ("probe",)


def families(tier):
    F = []

    def add(name, res):
        if res is not None:
            F.append((name, res[0], res[1]))
            if name.split(".")[0] in EXEMPT_PROBES or name in EXEMPT_PROBES:
                F.append((name + ".exempt_first",) + with_exempt_branches(res[0], res[1], True))
                F.append((name + ".exempt_last",) + with_exempt_branches(res[0], res[1], False))

    thorough = tier != "quick"
    # ---- convolution / depthwise: strides, kernels, dilation, padding, types, bias, weights, activation, batch
    stride_l = [(1, 1), (2, 2), (3, 3), (1, 3), (3, 1), (4, 4), (1, 4), (4, 1), (2, 5), (5, 2), (3, 4), (4, 3), (1, 5), (5, 1), (7, 7), (2, 4), (1, 6)]
    for kind in ("conv", "dw"):
        for s in stride_l:
            for same in (True, False):
                add("%s.s%dx%d.%s" % (kind, s[0], s[1], "same" if same else "valid"), conv(kind, ifm=(1, 24, 24, 8), k=(3, 3), s=s, same=same))
        for s in ((1, 4), (4, 1), (2, 2), (4, 4)):
            add("%s.s%dx%d.wrap" % (kind, s[0], s[1]), conv(kind, ifm=(1, 24, 24, 8), k=(3, 3), s=s, wrap=True))
            add("%s.s%dx%d.u8" % (kind, s[0], s[1]), conv(kind, ifm=(1, 24, 24, 8), k=(3, 3), s=s, dt="uint8"))
            add("%s.s%dx%d.ofmh1" % (kind, s[0], s[1]), conv(kind, ifm=(1, 3, 24, 8), k=(3, 3), s=s, same=False))
        for k, d in (((64, 1), (1, 1)), ((65, 1), (1, 1)), ((1, 65), (1, 1)), ((64, 64), (1, 1)), ((64, 65), (1, 1)), ((32, 3), (2, 1)), ((33, 3), (2, 1)), ((33, 3), (1, 2)), ((3, 3), (2, 2)),
                     ((3, 3), (3, 3)), ((7, 7), (1, 1)), ((2, 5), (1, 1))):
            add("%s.k%dx%d.d%dx%d" % (kind, k[0], k[1], d[0], d[1]), conv(kind, ifm=(1, 8, 8, 2), k=k, d=d, same=True, cout=2))
        for dt, wdt, bias in (("int8", "int8", "int32"), ("uint8", "uint8", "int32"), ("int16", "int8", "int64"), ("int16", "int8", "int32"), ("int8", "int16", "int32"), ("int8", "int8", "int16"),
                              ("int8", "int8", None), ("int8", "int8", "int64"), ("float32", "float32", "float32")):
            if dt == "float32":
                continue
            add("%s.types.%s.%s.%s" % (kind, dt, wdt, bias), conv(kind, dt=dt, wdt=wdt, bias=bias))
        for act in (0, 1, 2, 3, 4, 5):
            add("%s.act%d" % (kind, act), conv(kind, act=act))
        add(kind + ".batch2", conv(kind, ifm=(2, 8, 8, 8)))
        add(kind + ".dynw", conv(kind, dynw=True))
        add(kind + ".perchannel", conv(kind, per_channel=True))
        add(kind + ".bias2d", conv(kind, bias_shape=[1, 8]))
        add(kind + ".bias40", conv(kind, dt="int16", bias="int64", bias_values=[(1 << 39) - 1] * 8))
        add(kind + ".bias42", conv(kind, dt="int16", bias="int64", bias_values=[(1 << 41)] * 8))
    add("conv.wsum.at", conv("conv", ifm=(1, 64, 64, 16), k=(64, 64), same=False, cout=1, wvalue=127))
    add("conv.wsum.over", conv("conv", ifm=(1, 64, 64, 17), k=(64, 64), same=False, cout=1, wvalue=127))
    # the limit is on the sum of magnitudes: weights of opposite sign must not cancel
    add("conv.wsum.over.mixed_sign", conv("conv", ifm=(1, 64, 64, 17), k=(64, 64), same=False, cout=2, wvalue="alt127"))
    add("conv.wsum.at.mixed_sign", conv("conv", ifm=(1, 64, 64, 16), k=(64, 64), same=False, cout=2, wvalue="alt127"))
    add("conv.wsum.over.negative", conv("conv", ifm=(1, 64, 64, 17), k=(64, 64), same=False, cout=1, wvalue=-127))
    add("dw.wsum.small", conv("dw", ifm=(1, 8, 8, 8), k=(8, 8), same=True, wvalue="alt127"))
    add("conv.dim65535", conv("conv", ifm=(1, 1, 65535, 1), k=(1, 1), cout=1))
    add("conv.dim65536", conv("conv", ifm=(1, 1, 65536, 1), k=(1, 1), cout=1))
    for dm, c in ((1, 8), (2, 1), (2, 8), (4, 1), (3, 2)):
        add("dw.dm%d.c%d" % (dm, c), conv("dw", ifm=(1, 8, 8, c), dm=dm))
    # ---- pooling
    for op in ("MAX_POOL_2D", "AVERAGE_POOL_2D"):
        tag = "max" if op.startswith("MAX") else "avg"
        for s in stride_l:
            for same in (True, False):
                add("%s.s%dx%d.%s" % (tag, s[0], s[1], "same" if same else "valid"), pool(op, ifm=(1, 24, 24, 8), k=(3, 3), s=s, same=same))
        for k in ((1, 1), (8, 8), (9, 9), (8, 9), (9, 8), (9, 1), (1, 9)):
            for same in (True, False):
                add("%s.k%dx%d.%s" % (tag, k[0], k[1], "same" if same else "valid"), pool(op, ifm=(1, 24, 24, 8), k=k, s=(1, 1), same=same))
        for k, ifm in (((256, 1), (1, 300, 4, 4)), ((257, 1), (1, 300, 4, 4)), ((256, 256), (1, 256, 256, 1)), ((256, 257), (1, 256, 257, 1)), ((1, 300), (1, 2, 300, 4))):
            add("%s.k%dx%d.valid.big" % (tag, k[0], k[1]), pool(op, ifm=ifm, k=k, s=(1, 1), same=False))
        for dt, odt in (("int8", "int8"), ("uint8", "uint8"), ("int16", "int16"), ("int8", "uint8"), ("int8", "int16")):
            add("%s.types.%s.%s" % (tag, dt, odt), pool(op, dt=dt, odt=odt))
        for act in (0, 1, 3, 4, 5):
            add("%s.act%d" % (tag, act), pool(op, act=act))
        add(tag + ".batch2", pool(op, ifm=(2, 8, 8, 8)))
        add(tag + ".wrap", pool(op, wrap=True))
        add(tag + ".s4x4.wrap", pool(op, ifm=(1, 24, 24, 8), k=(3, 3), s=(4, 4), wrap=True))
    # ---- binary elementwise
    for op in ("ADD", "SUB", "MUL", "MINIMUM", "MAXIMUM"):
        for adt, bdt, odt in (("int8", "int8", "int8"), ("uint8", "uint8", "uint8"), ("int16", "int16", "int16"), ("int8", "uint8", "int8"), ("int8", "int8", "uint8"), ("uint8", "uint8", "int8"),
                              ("uint8", "uint8", "int32"), ("int8", "int8", "int32"), ("int32", "int32", "int32"), ("int8", "int8", "int16"), ("uint8", "uint8", "int16")):
            nq = "int32" in (adt, bdt)
            add("%s.types.%s.%s.%s" % (op, adt, bdt, odt), binary(op, adt=adt, bdt=bdt, odt=odt, noquant=False if not nq else False))
        for a, b in (((1, 8, 8, 8), (1, 8, 8, 8)), ((1, 8, 8, 8), (1, 1, 1, 8)), ((1, 8, 8, 8), (1, 8, 1, 1)), ((1, 8, 8, 8), (1, 1, 1, 1)), ((1, 8, 8, 8), (8,)), ((1, 8, 8, 8), ()),
                     ((1, 8, 8, 1), (1, 1, 1, 8)), ((1, 1, 8, 8), (1, 8, 1, 8)), ((8, 8), (8, 8)), ((8, 8), (1, 8)), ((2, 8, 8, 8), (2, 8, 8, 8)), ((2, 8, 8, 8), (1, 1, 1, 8)), ((1, 2, 8, 8, 8), (1, 2, 8, 8, 8)),
                     ((4, 8, 8), (4, 8, 8)), ((1, 8, 8, 8), (1, 8, 8, 1))):
            for bconst in (False, True):
                try:
                    add("%s.shape.%s.%s.%s" % (op, "x".join(map(str, a)), "x".join(map(str, b)) or "scalar", "c" if bconst else "v"), binary(op, a=a, b=b, bconst=bconst))
                except ValueError:
                    pass
        if op in ("MINIMUM", "MAXIMUM"):
            add(op + ".qmismatch", binary(op, match_q=False))
        else:
            for act in (1, 3, 4, 5):
                add("%s.act%d" % (op, act), binary(op, act=act))
            add(op + ".act1.int32", binary(op, adt="int32", act=1))
        add(op + ".wrap", binary(op, bconst=True, wrap=True))
    # ---- probes for the generic constraints from which some operators are exempt
    for op in ("ADD", "MUL", "SUB"):
        add("probe.%s.int32.noquant" % op, binary(op, adt="int32", noquant=True))
        add("probe.%s.int8.noquant" % op, binary(op, adt="int8", noquant=True))
        add("probe.%s.int8.ok" % op, binary(op, adt="int8"))
        add("probe.%s.int8.scalar_const" % op, binary(op, b=(), bconst=True))
    for op in ("RELU", "ABS", "LEAKY_RELU"):
        add("probe.%s.int8.noquant" % op, unary(op, noquant=True))
        add("probe.%s.int8.ok" % op, unary(op))
    add("probe.conv.noquant_ofm", _conv_noquant())
    add("probe.maxpool.f32", pool("MAX_POOL_2D", dt="int8", odt="int8"))
    # ---- unary
    for op in UNARY_OPTS:
        for dt, odt in (("int8", "int8"), ("uint8", "uint8"), ("int16", "int16"), ("int32", "int32"), ("int8", "uint8"), ("int8", "int16"), ("uint8", "int8")):
            add("%s.types.%s.%s" % (op, dt, odt), unary(op, dt=dt, odt=odt, noquant=dt == "int32"))
        add(op + ".batch2", unary(op, shape=(2, 8, 8, 8)))
        add(op + ".2d", unary(op, shape=(4, 8)))
        add(op + ".5d", unary(op, shape=(1, 2, 4, 4, 8)))
        add(op + ".wrap", unary(op, wrap=True))
    # ---- mean
    for shape, axes in (((1, 8, 8, 8), (1, 2)), ((1, 8, 8, 8), (1,)), ((1, 8, 8, 8), (2,)), ((1, 8, 8, 8), (3,)), ((1, 1, 8, 8), (3,)), ((1, 8, 1, 8), (3,)), ((1, 8, 8, 1), (3,)), ((1, 8, 8, 8), (0,)),
                        ((2, 8, 8, 8), (0,)), ((2, 8, 8, 8), (1, 2)), ((1, 8, 8, 8), (1, 2, 3)), ((1, 1, 8, 8), (1, 2, 3)), ((8, 8), (0,)), ((8, 8), (1,)), ((8, 8), (0, 1)), ((8, 8, 8), (0, 1)), ((8, 8, 8), (2,)),
                        ((8, 1, 8), (2,)), ((8,), (0,)), ((1, 8, 8, 8), (-1,)), ((1, 8, 8, 8), (-2, -3)),
                        ((1, 2, 4096, 2), (2,)), ((1, 2, 4097, 2), (2,)), ((1, 2, 4097, 2), (1,)), ((1, 3, 4097, 2), (1,)), ((1, 1, 1, 4096), (3,)), ((1, 1, 1, 4097), (3,)), ((1, 1, 2, 4097), (2,)),
                        ((1, 2, 4097), (1,)), ((1, 2, 4097), (2,)), ((1, 4097, 2), (1,)), ((1, 4097, 2), (0,)), ((2, 4097), (0,)), ((2, 4097), (1,)), ((4097, 2), (0,))):
            for keep in (True, False):
                add("mean.%s.ax%s.%s" % ("x".join(map(str, shape)), "_".join(map(str, axes)), "keep" if keep else "drop"), mean(shape, axes, keep))
    # depth reduction with the size-1 dimension in every position (H, W or C of a 3D / 4D input) and in none
    for shape in ((1, 8, 16), (8, 1, 16), (8, 16, 1), (4, 8, 16), (1, 1, 8, 16), (1, 8, 1, 16), (1, 8, 16, 1), (1, 4, 8, 16)):
        for axes in ((len(shape) - 1,), (-1,)):
            for keep in (True, False):
                add("mean.depth.%s.ax%s.%s" % ("x".join(map(str, shape)), "_".join(map(str, axes)), "keep" if keep else "drop"), mean(shape, axes, keep))
    for dt in ("uint8", "int16"):
        add("mean.%s" % dt, mean((1, 8, 8, 8), (1, 2), dt=dt))
    add("mean.i16.prod65536", mean((1, 256, 256, 1), (1, 2), dt="int16"))
    add("mean.i16.prod65792", mean((1, 256, 257, 1), (1, 2), dt="int16"))
    add("mean.scalar_axis", mean((1, 8, 8, 8), (1,), scalar_axis=True))
    # ---- resize
    for op in ("RESIZE_NEAREST_NEIGHBOR", "RESIZE_BILINEAR"):
        tag = "rnn" if "NEAREST" in op else "rbl"
        for ihw in ((1, 1), (4, 4), (3, 5)):
            for f in (1, 2, 3, 4, 8, 16):
                for align in (False, True):
                    for half in (False, True):
                        ohw = ((ihw[0] - 1) * f + 1, (ihw[1] - 1) * f + 1) if align and ihw != (1, 1) else (ihw[0] * f, ihw[1] * f)
                        add("%s.%dx%d.f%d%s%s" % (tag, ihw[0], ihw[1], f, ".ac" if align else "", ".hp" if half else ""), resize(op, ihw, ohw, align, half))
        add(tag + ".uneq", resize(op, (4, 4), (8, 16)))
        add(tag + ".sizemismatch", resize(op, (4, 4), (8, 8), size=(8, 9)))
    # ---- transpose conv
    for s in ((1, 1), (2, 2), (1, 2), (2, 1), (3, 3), (4, 4)):
        for same in (True, False):
            add("tconv.s%dx%d.%s" % (s[0], s[1], "same" if same else "valid"), tconv(s=s, same=same))
    # kernel extents below, at and above the stride, per axis (the VALID output extent clamps kernel - stride at zero)
    for kh, kw in ((1, 1), (1, 3), (3, 1), (2, 2), (1, 2), (2, 1), (4, 4), (2, 5)):
        for st in ((1, 1), (2, 2)):
            for same in (True, False):
                add("tconv.k%dx%d.s%dx%d.%s" % (kh, kw, st[0], st[1], "same" if same else "valid"), tconv(k=(kh, kw), s=st, same=same))
    add("tconv.k1x1.s2x2.valid.short", tconv(ifm=(1, 4, 4, 8), k=(1, 1), s=(2, 2), same=False, ohw=(7, 7)))
    add("tconv.s1x2.h1k1", tconv(ifm=(1, 1, 8, 8), k=(1, 3), s=(1, 2)))
    add("tconv.s2x1.w1k1", tconv(ifm=(1, 8, 1, 8), k=(3, 1), s=(2, 1)))
    add("tconv.same.badshape", tconv(s=(2, 2), same=True, ohw=(17, 17)))
    add("tconv.k65", tconv(ifm=(1, 4, 4, 2), k=(65, 1), s=(1, 1), cout=2))
    add("tconv.k64", tconv(ifm=(1, 4, 4, 2), k=(64, 1), s=(1, 1), cout=2))
    add("tconv.nobias", tconv(bias=False))
    add("tconv.u8", tconv(dt="uint8"))
    add("tconv.i16", tconv(dt="int16"))
    # ---- fully connected
    for dt, wdt, bias in (("int8", "int8", "int32"), ("uint8", "uint8", "int32"), ("int16", "int8", "int64"), ("int8", "int16", "int32"), ("int8", "int8", None), ("int8", "int8", "int16"), ("int8", "int8", "int64")):
        add("fc.types.%s.%s.%s" % (dt, wdt, bias), fc(dt=dt, wdt=wdt, bias=bias))
    add("fc.batch4", fc(ishape=(4, 64)))
    add("fc.keep3d", fc(ishape=(1, 4, 64), keep=True))
    add("fc.keep_mismatch", fc(ishape=(1, 4, 64), keep=True, oshape=[4, 10]))
    add("fc.4d_in", fc(ishape=(1, 2, 2, 16), oshape=[4, 10]))
    add("fc.dynw", fc(dynw=True))
    # per-axis quantisation is listed for the three convolution types only: every other tensor role must be refused
    add("fc.per_channel_weights", fc(per_channel=True))
    add("fc.per_channel_weights.u8", fc(per_channel=True, dt="uint8"))
    # ---- softmax
    for dt, odt in (("int8", "int8"), ("uint8", "uint8"), ("int16", "int16"), ("int8", "int16"), ("int8", "uint8")):
        add("softmax.types.%s.%s" % (dt, odt), softmax(dt=dt, odt=odt))
    for beta in (1.0, 0.5, -1.0):
        add("softmax.beta%s" % beta, softmax(beta=beta))
    for shape in ((1, 10), (4, 10), (1, 4, 4, 8), (2, 4, 4, 8), (1, 3, 10)):
        add("softmax.shape.%s" % "x".join(map(str, shape)), softmax(shape=shape))
    # ---- argmax
    for dt in ("int8", "uint8", "int16"):
        for odt in ("int32", "int64"):
            add("argmax.%s.%s" % (dt, odt), argmax(dt=dt, odt=odt))
    for axis in (3, -1, 1, 2):
        add("argmax.axis%d" % axis, argmax(axis=axis))
    for depth in (127, 128):
        add("argmax.depth%d" % depth, argmax(shape=(1, 4, 4, depth)))
    add("argmax.2d", argmax(shape=(4, 16), axis=1))
    # ---- transpose
    for shape, perm in (((8, 16), (1, 0)), ((4, 8, 16), (1, 0, 2)), ((1, 8, 16), (0, 2, 1)), ((4, 8, 16), (0, 2, 1)), ((4, 1, 16), (2, 1, 0)), ((4, 8, 16), (2, 1, 0)), ((4, 8, 16), (2, 0, 1)),
                        ((1, 4, 8, 16), (0, 2, 1, 3)), ((1, 1, 8, 16), (0, 1, 3, 2)), ((1, 4, 8, 16), (0, 1, 3, 2)), ((1, 4, 1, 16), (0, 3, 2, 1)), ((1, 4, 8, 16), (0, 3, 2, 1)), ((1, 4, 8, 16), (0, 3, 1, 2)),
                        ((1, 4, 8, 16), (0, 2, 3, 1)), ((2, 4, 8, 16), (0, 2, 1, 3)), ((1, 4, 8, 16), (3, 1, 2, 0)), ((1, 4, 8, 16), (0, 1, 2)), ((4, 8, 16), (0, 3, 1))):
        for dt in ("int8", "int16") if thorough or perm in ((0, 2, 1, 3), (1, 0)) else ("int8",):
            add("transpose.%s.p%s.%s" % ("x".join(map(str, shape)), "".join(map(str, perm)), dt), transpose(shape, perm, dt))
    # ---- strided slice
    add("ss.base", strided_slice())
    add("ss.stride2", strided_slice(end=(1, 7, 8, 8), strides=(1, 2, 1, 1)))
    add("ss.stride2c", strided_slice(strides=(1, 1, 1, 2)))
    add("ss.ellipsis", strided_slice(masks=dict(EllipsisMask=2)))
    add("ss.newaxis_shrink", strided_slice(masks=dict(NewAxisMask=1, ShrinkAxisMask=2)))
    add("ss.shrink", strided_slice(begin=(0, 1, 0, 0), end=(1, 2, 8, 8), masks=dict(ShrinkAxisMask=2)))
    add("ss.end_le_begin", strided_slice(begin=(0, 4, 0, 0), end=(1, 4, 8, 8)))
    add("ss.end_lt_begin", strided_slice(begin=(0, 5, 0, 0), end=(1, 3, 8, 8)))
    add("ss.masks", strided_slice(masks=dict(BeginMask=15, EndMask=15)))
    add("ss.offset", strided_slice(offset=True))
    add("ss.batch2", strided_slice(shape=(2, 8, 8, 8), end=(2, 7, 7, 8)))
    add("ss.wrap", strided_slice(wrap=True))
    add("ss.stride2.wrap", strided_slice(end=(1, 7, 8, 8), strides=(1, 2, 1, 1), wrap=True))
    # ---- pad
    for pads in (((0, 0), (1, 1), (1, 1), (0, 0)), ((0, 0), (0, 0), (0, 0), (0, 3)), ((0, 0), (0, 0), (0, 0), (2, 0)), ((1, 0), (0, 0), (0, 0), (0, 0)), ((0, 0), (2, 0), (0, 3), (0, 0)), ((0, 0), (0, 0), (0, 0), (0, 0))):
        for pdt in ("int32", "int64"):
            add("pad.%s.%s" % ("_".join("%d%d" % p for p in pads), pdt), pad(pads=pads, pdt=pdt))
        add("pad.%s.wrap" % "_".join("%d%d" % p for p in pads), pad(pads=pads, wrap=True))
    add("pad.3d", pad(shape=(8, 8, 8), pads=((1, 1), (1, 1), (0, 0))))
    add("pad.2d", pad(shape=(8, 8), pads=((1, 1), (0, 0))))
    add("pad.pdt_i16", pad(pdt="int16"))
    add("pad.u8", pad(dt="uint8"))
    add("pad.i16", pad(dt="int16"))
    # ---- reshape family
    add("reshape.base", reshape_like("RESHAPE", (1, 8, 8, 8), (1, 64, 1, 8)))
    add("reshape.qmismatch", reshape_like("RESHAPE", (1, 8, 8, 8), (1, 64, 1, 8), same_q=False))
    add("reshape.batch", reshape_like("RESHAPE", (2, 8, 8, 8), (1, 16, 8, 8)))
    add("reshape.wrap", reshape_like("RESHAPE", (1, 8, 8, 8), (1, 64, 1, 8), wrap=True))
    add("reshape.qmismatch.wrap", reshape_like("RESHAPE", (1, 8, 8, 8), (1, 64, 1, 8), same_q=False, wrap=True))
    add("squeeze.base", reshape_like("SQUEEZE", (1, 1, 8, 8), (1, 8, 8)))
    add("squeeze.qmismatch", reshape_like("SQUEEZE", (1, 1, 8, 8), (1, 8, 8), same_q=False))
    add("expand.base", reshape_like("EXPAND_DIMS", (1, 8, 8), (1, 1, 8, 8)))
    add("expand.qmismatch", reshape_like("EXPAND_DIMS", (1, 8, 8), (1, 1, 8, 8), same_q=False))
    # ---- concat / split
    for axis in (0, 1, 2, 3, -1, 4):
        add("concat.axis%d" % axis, concat(axis=axis) if axis < 4 else concat(axis=axis, oshape=[1, 8, 8, 16]))
    add("concat.dimmismatch", concat(other=(1, 8, 4, 8), axis=3, oshape=[1, 8, 8, 16]))
    add("concat.summismatch", concat(axis=3, oshape=[1, 8, 8, 15]))
    add("concat.rankmismatch", concat(other=(8, 8, 8), axis=3, oshape=[1, 8, 8, 16]))
    for axis, num in ((3, 2), (3, 3), (-1, 2), (1, 2), (2, 4), (4, 2), (-4, 1), (-5, 2)):
        add("split.axis%d.n%d" % (axis, num), split(axis=axis, num=num))
    return F
