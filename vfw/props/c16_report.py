"""C16 helper: the supported-operators report as data.

report_text()      : runs `vela --supported-ops-report` (real entry point) in a scratch directory, returns the markdown
parse(text)        : -> dict(generic=[(text, exceptions)], specific={OP: [text]}, ops=[OP...]); constraint texts are
                     whitespace-normalised"""
import os
import re
import shutil
import tempfile


def norm(s):
    return re.sub(r"\s+", " ", s).strip()


def report_text():
    from ethosu.vela import vela

    d = tempfile.mkdtemp(prefix="vfw-rep-")
    cwd = os.getcwd()
    try:
        os.chdir(d)
        try:
            vela.main(["--supported-ops-report"])
        except SystemExit:
            pass
        p = os.path.join(d, "SUPPORTED_OPS.md")
        return open(p).read() if os.path.exists(p) else ""
    finally:
        os.chdir(cwd)
        shutil.rmtree(d, ignore_errors=True)


def _bullets(lines):
    out = []
    cur = None
    for ln in lines:
        if ln.startswith("- "):
            if cur is not None:
                out.append(cur)
            cur = ln[2:]
        elif cur is not None and ln.strip() and (ln.startswith(" ") or ln.startswith("\t")):
            cur += " " + ln.strip()
        elif cur is not None and not ln.strip():
            out.append(cur)
            cur = None
    if cur is not None:
        out.append(cur)
    return out


def parse(text):
    secs = re.split(r"^### ", text, flags=re.M)
    res = dict(generic=[], specific={}, ops=[])
    for row in re.findall(r"^\| ([A-Z0-9_]+) \| (.*) \|$", text, flags=re.M):
        res["ops"].append(row[0])
    for sec in secs[1:]:
        head, _, body = sec.partition("\n")
        lines = body.split("\n")
        m = re.match(r"TFLite (.+) Constraints", head.strip())
        if not m:
            continue
        what = m.group(1)
        bl = _bullets(lines)
        if what == "Generic":
            for b in bl:
                first = b
                exc = []
                mm = re.search(r" - \[([A-Z0-9_, ]+)\]\s*$", first)
                if mm:
                    exc = [x.strip() for x in mm.group(1).split(",")]
                    first = first[: mm.start()]
                res["generic"].append((norm(first), exc))
        else:
            res["specific"][what] = [norm(b) for b in bl]
    return res


def constraints_for(rep, op):
    """all constraint texts the report lists for operator `op` (None if the operator is not in the table)"""
    if op not in rep["ops"]:
        return None
    out = [t for t, exc in rep["generic"] if op not in exc]
    return out + rep["specific"].get(op, [])
