"""C03 - no NPU operation consumes memory that was not defined for it (tag machine over emitted streams).

Also hosts the forced-schedule enumeration shared with C10 (every stripe height of 2/3-operator chains through the real
pipeline with the cost comparison bypassed)."""
from .. import forced, netrun, outfile, sweep
from ..npu import tagmachine as TM


def _eq_map(rec):
    m = {}
    for sg in rec["sideband"].subgraphs:
        for d in sg["inputs"] + sg["outputs"]:
            for n in d["names"]:
                m.setdefault(n, d["eq"])
                for suf in ("_npu", "_cpu"):
                    if n.endswith(suf):
                        m.setdefault(n[:-len(suf)], d["eq"])
        # variable (state) tensors are operands of the custom operator without being subgraph inputs of the NPU graph: take their
        # equivalence class from the operand descriptors of the commands
        for c in sg.get("cmds") or []:
            for k in ("ifm", "ifm2", "ofm"):
                d = c.get(k) if isinstance(c, dict) else None
                if isinstance(d, dict) and d.get("names") and d.get("eq"):
                    for n in d["names"]:
                        if n.endswith("_npu"):
                            m.setdefault(n[:-4], d["eq"])
    return m


def run_tag_machine(case, rec, an, streams):
    """Returns (violations [(key, what)], stats)."""
    cfg = case["cfg"]
    acc = cfg.get("acc", "ethos-u65-256")
    viol = []
    stats = {}
    if not an["npu"] or not rec.get("sideband"):
        return viol, dict(ops=0)
    n0 = an["npu"][0]
    tm = TM.TagMachine({1: n0["scratch_size"], 2: n0["fast_size"]}, n0["flash"], acc)
    eqm = _eq_map(rec)
    sg = an["sg"]

    def desc(ti):
        nm = sg["tensors"][ti]["name"]
        return dict(eq=eqm.get(nm, "file:" + nm), name=nm)

    def define(ti):
        off = outfile.arena_offset(an, ti)
        if off is not None:
            tm.define_external(1, off, outfile.tensor_bytes(sg["tensors"][ti]), desc(ti))

    for ti in sg["inputs"]:
        define(ti)
    for ti, t in enumerate(sg["tensors"]):
        if t.get("is_variable"):
            define(ti)  # variable (state) tensors are zero-initialised by the runtime before the first inference
    containers = set()
    for n in an["npu"]:
        containers |= {n["scratch_tensor"], n["fast_tensor"]}
    by_op = {n["op_index"]: (n, s) for n, s in zip(an["npu"], streams)}
    sb_by_words = {}
    for s in rec["sideband"].subgraphs:
        sb_by_words.setdefault(tuple(s["words"]), s)
    matched = 0
    for oi, op in enumerate(sg["ops"]):
        if oi in by_op:
            n, s = by_op[oi]
            sb = sb_by_words.get(tuple(s.words))
            if sb is None or s.problems:
                stats["streams_without_sideband"] = stats.get("streams_without_sideband", 0) + 1
                # cannot name what the reads must see: treat the operator's outputs as defined and go on
                for ti in n["ofms"]:
                    define(ti)
                continue
            before = len(tm.viol)
            ok = tm.run_stream(s.ops, sb["cmds"])
            if not ok:
                stats["streams_without_sideband"] = stats.get("streams_without_sideband", 0) + 1
                for ti in n["ofms"]:
                    define(ti)
                continue
            matched += 1
            for ti in n["ofms"]:
                off = outfile.arena_offset(an, ti)
                if off is not None:
                    tm.check_output(1, off, outfile.tensor_bytes(sg["tensors"][ti]), desc(ti), "stream@op%d" % oi)
            for kind, opi, what in tm.viol[before:]:
                viol.append(("%s|stream-op%s" % (kind, oi), what + " [NPU op #%s of the custom operator at position %d]" % (opi, oi)))
        else:
            for ti in op["outputs"]:
                if ti >= 0 and ti not in containers:
                    define(ti)
    stats.update(tm.stats)
    stats["streams_tagged"] = matched
    stats["states"] = tm.stats["ops"] + tm.stats["dmas"]
    stats["transitions"] = tm.stats["ops"] + tm.stats["dmas"]
    return viol, stats


def oracle(case, rec, an, streams, mb):
    viol, stats = run_tag_machine(case, rec, an, streams)
    # known defect family (see C02): ops whose declared IFM box does not match what they fetch are reported under their root cause
    out = []
    gm_ops = set()
    for si, s in enumerate(streams):
        for oi in range(len(s.ops)):
            gm = netrun.geometry_mismatch(s, oi)
            if gm:
                gm_ops.add((s.npu["op_index"], oi))
                out.append(("inconsistent-npu-op|%s/%s" % (s.ops[oi].kind, s.ops[oi].sub), "%s %s operation is geometrically inconsistent (%s)" % (s.ops[oi].kind, s.ops[oi].sub, gm)))
    if gm_ops:
        # the stray fetches of such an op (and everything downstream of its garbage) are not re-reported
        return out, stats
    return viol, stats


def _key(key, name):
    if key.startswith("inconsistent-npu-op"):
        return key
    steps = name.split(">", 1)[1].split(" @")[0] if ">" in name else name
    return "%s|steps=%s" % (key.split("|stream-op")[0], steps)


def replay(ctx, case):
    return netrun.replay_case(oracle, case)


def run(ctx):
    return netrun.run(
        ctx, oracle, "model_checking",
        rule="every stream of every compiled network is executed by the tag machine in program order (CPU operators defining their outputs in between); "
             "states = stream positions, transitions = operations executed",
        assumptions=["identity of a byte = (tensor equivalence class, logical element under the operation's view) for brick-format and rolling-buffer tensors, (tensor, byte offset) for linear tensors, (constants, flash offset -> compared by content) for weights/scales/LUTs",
                     "operations execute atomically in program order (asynchrony is C04's subject); names/boxes of what each access must see come from the compiler's high-level command list (side band), addresses from the emitted registers"],
        extra_cases=forced.forced_cases(ctx.tier), nontrivial_stat="reads_checked", model_checking=True, key_fn=_key)
