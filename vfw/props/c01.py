"""C01 - the compiled model computes the same function as the source model.

Program space: generated networks x configurations (+ forced schedules); each compiled network is executed on a fixed
covering set of inputs: source model by reference kernels, output model by reference kernels for CPU operators and the
functional executor (vfw/npu/execute.py) for every Ethos-U custom operator over exactly the bytes stored in the file."""
import numpy as np

from .. import forced, netrun, outfile, sweep
from ..npu import execute as X
from ..ref import kernels as K
from ..tfl import read


def covering_inputs(shape, dtype, seed):
    lo, hi = K.RANGE[dtype]
    n = int(np.prod(shape))
    rng = np.random.default_rng(seed + 12345)
    ramp = (np.arange(n) % (hi - lo + 1)) + lo
    checker = np.where((np.indices(shape).sum(axis=0) % 2) == 0, lo, hi)
    return [np.full(shape, lo), np.full(shape, hi), np.zeros(shape, dtype=np.int64) + (lo + hi + 1) // 2, ramp.reshape(shape), checker,
            rng.integers(lo, hi + 1, size=shape)]


def npu_quant(side_op):
    def q(fm):
        if fm is None or fm.quantization is None:
            return dict(scale=None, zp=0)
        return dict(scale=None if fm.quantization.scale_f32 is None else float(np.float32(fm.quantization.scale_f32)), zp=int(fm.quantization.zero_point))
    return dict(ifm=q(side_op.ifm), ifm2=q(side_op.ifm2), ofm=q(side_op.ofm))


def classify(src):
    """tolerance class of the network: 'exact', 'approx-last' (an approximated operator only at the end, followed by data movement
    at most) or None (an approximated operator feeds arithmetic: error would be amplified, not judged)"""
    ops = src["subgraphs"][0]["ops"]
    tol = 0
    seen_approx = False
    for op in ops:
        name = op["op"]
        if seen_approx and name not in ("RESHAPE", "CONCATENATION", "SPLIT", "STRIDED_SLICE", "SLICE", "PAD", "SQUEEZE", "DEPTH_TO_SPACE", "TRANSPOSE", "MAX_POOL_2D", "RELU", "CUSTOM", "NEG", "PACK", "UNPACK", "SPLIT_V", "SHAPE", "EXPAND_DIMS"):
            return None
        if name in K.APPROX:
            seen_approx = True
            tol = 1
        elif name not in K.EXACT:
            return None
    return tol


def oracle(case, rec, an, streams, mb):
    viol = []
    stats = dict(executions=0, exact=0, approx=0, unjudged=0, npu_ops_executed=0)
    src = read.read_model(mb)
    out = an["model"]
    tol = classify(src)
    if tol is None:
        stats["unjudged"] += 1
        stats["why_unjudged:approximated-op-feeds-arithmetic-or-unknown-op"] = 1
        return viol, stats
    ssg, osg = src["subgraphs"][0], out["subgraphs"][0]
    if not an["npu"]:
        stats["unjudged"] += 1
        return viol, stats
    acc = case["cfg"].get("acc", "ethos-u65-256")
    by_op = {n["op_index"]: (n, s) for n, s in zip(an["npu"], streams)}
    n0 = an["npu"][0]

    inputs = []
    for ti in ssg["inputs"]:
        t = ssg["tensors"][ti]
        if t["dtype"] not in ("int8", "uint8", "int16"):
            stats["unjudged"] += 1
            return viol, stats
        inputs.append((ti, t))
    sets = [covering_inputs(t["shape"], t["dtype"], case.get("seed", 0) + k) for k, (ti, t) in enumerate(inputs)]
    for k in range(6):
        feed_src = {ti: sets[j][k].astype(np.int64) for j, (ti, t) in enumerate(inputs)}
        try:
            ref = K.evaluate(src, feed_src)
        except K.Unsupported as e:
            stats["unjudged"] += 1
            stats["why_unjudged:reference:%s" % str(e)[:40]] = 1
            return viol, stats
        mem = X.Memory(n0["flash"], n0["scratch_size"], n0["fast_size"], acc)
        name_to_out = {t["name"]: i for i, t in enumerate(osg["tensors"])}
        feed_out = {}
        for (ti, t) in inputs:
            feed_out[name_to_out[t["name"]]] = feed_src[ti]

        NP = {"int8": np.int8, "uint8": np.uint8, "int16": np.int16, "int32": np.int32, "int64": np.int64}

        # the tensor arena is ONE memory image for the whole inference: network inputs and results of CPU operators are written where the
        # file places them, CPU operators read their operands back from it, Ethos-U operators work on it directly, and the network outputs are
        # read from it at the end - so a buffer that is overwritten while a later operator still needs it shows as a wrong result
        def arena_store(ti, val):
            off = outfile.arena_offset(an, ti)
            t = osg["tensors"][ti]
            if off is None or off < 0 or t["dtype"] not in NP or outfile.tensor_data_present(an, ti):
                return
            raw = np.asarray(val).astype(NP[t["dtype"]]).tobytes()
            if off + len(raw) <= len(mem.m[1]):
                mem.m[1][off:off + len(raw)] = np.frombuffer(raw, dtype=np.uint8)

        def arena_load(ti, val):
            off = outfile.arena_offset(an, ti)
            t = osg["tensors"][ti]
            if off is None or off < 0 or t["dtype"] not in NP or val is None or outfile.tensor_data_present(an, ti):
                return val
            nb = outfile.tensor_bytes(t)
            if off + nb > len(mem.m[1]) or nb != np.asarray(val).size * np.dtype(NP[t["dtype"]]).itemsize:
                return val
            return np.frombuffer(mem.m[1][off:off + nb].tobytes(), dtype=NP[t["dtype"]]).reshape(np.asarray(val).shape).astype(np.int64)

        def npu_exec(oi, op, vals):
            n, s = by_op[oi]
            if s.problems or s.side is None or not netrun.sideband_matches(s):
                raise X.Unsupported("stream not matched with the side band")
            for ti in n["ifms"]:
                off = outfile.arena_offset(an, ti)
                if off is None or ti not in vals:
                    raise X.Unsupported("custom operator input without arena offset / value")
            cmds = [dict(quant=npu_quant(o)) if hasattr(o, "ifm") else None for o in s.side["npu_ops"]]
            X.run_stream(mem, s.ops, cmds, acc)
            stats["npu_ops_executed"] += len(s.ops)
            res = {}
            for ti in n["ofms"]:
                off = outfile.arena_offset(an, ti)
                t = osg["tensors"][ti]
                nb = outfile.tensor_bytes(t)
                dt = {"int8": np.int8, "uint8": np.uint8, "int16": np.int16, "int32": np.int32}[t["dtype"]]
                res[ti] = np.frombuffer(mem.m[1][off:off + nb].tobytes(), dtype=dt).reshape(t["shape"]).astype(np.int64)
            return res

        try:
            got = K.evaluate(out, feed_out, npu_executor=npu_exec, store=arena_store, load=arena_load)
            got = {ti: arena_load(ti, v) for ti, v in got.items()}
        except X.StreamDefect as e:
            viol.append(("weight-stream-mismatch", str(e)))
            break
        except (X.Unsupported, K.Unsupported) as e:
            stats["unjudged"] += 1
            stats["why_unjudged:executor:%s" % str(e)[:40]] = 1
            return viol, stats
        stats["executions"] += 1
        for ti in ssg["outputs"]:
            nm = ssg["tensors"][ti]["name"]
            oi = name_to_out.get(nm)
            if oi is None or oi not in got:
                viol.append(("output-missing", "output tensor %s has no value in the compiled model" % nm))
                continue
            a, b = ref[ti].reshape(-1), np.asarray(got[oi]).reshape(-1)
            if a.shape != b.shape:
                viol.append(("output-shape", "output %s: %d values, reference %d" % (nm, b.size, a.size)))
                continue
            diff = np.abs(a - b)
            if diff.max(initial=0) > tol:
                i = int(np.argmax(diff > tol))
                viol.append(("wrong-output|tol%d" % tol, "output %s differs from the reference in %d of %d elements (first at flat index %d: compiled %d, reference %d; max |diff| %d; input pattern %d)" % (
                    nm, int((diff > tol).sum()), a.size, i, int(b[i]), int(a[i]), int(diff.max()), k)))
                break
        if viol:
            break
    if tol == 0:
        stats["exact"] += 1
    else:
        stats["approx"] += 1
    return viol, stats


def _key(key, name):
    steps = name.split(">", 1)[1].split(" @")[0] if ">" in name else name
    return "%s|steps=%s%s" % (key, steps, "|forced" if "forced-stripe" in name else "")


def replay(ctx, case):
    return netrun.replay_case(oracle, case)


def run(ctx):
    return netrun.run(
        ctx, oracle, "exploration",
        rule="every generated network x configuration (and the forced schedules) is compiled and executed on a covering set of 6 inputs per network input "
             "(all-min, all-max, mid, ramp over the code range, checkerboard, seeded random): source model by reference kernels, output model by reference kernels + functional executor; "
             "bit-exact for networks of exact-class operators, |diff| <= 1 when an approximated operator is last",
        assumptions=["TFL rounding = gemmlowp SaturatingRoundingDoublingHighMul + RoundingDivideByPOT; NATURAL = round-half-up; average pooling without global scale = reference rounding",
                     "ADD/SUB/MUL are evaluated by the reference kernel on operands fetched through the programmed addresses (their scale registers are C09/C06 territory)",
                     "input contents are a covering set, not an enumeration; networks whose lowering needs 32-bit elementwise chains, REDUCE_SUM, hardware tanh/sigmoid, transpose upscaling or 16-bit tables are compiled but not judged (counted as unjudged)"],
        extra_cases=forced.forced_cases(ctx.tier), nontrivial_stat="executions", key_fn=_key)
