"""C13 - every structurally valid model compiles or is rejected with a diagnosis (never an internal exception)."""
import collections

from .. import compile as C
from .. import core, sweep
from ..tfl import build, corner, nets, read

CLI_NETS = [dict(start=([1, 16, 16, 16], "int8"), steps=["conv3x3", "cpu_neg", "dw3x3"]),
            dict(start=([1, 8, 8, 8], "int8"), steps=["logistic"]),
            dict(start=([1, 16, 16, 8], "int16"), steps=["conv1x1", "add_const"]),
            # third-party custom operators (kept for the CPU) before, between and without accelerated operators
            dict(start=([1, 8, 8, 8], "int8"), steps=["maxpool2x2", "cpu_custom"]),
            dict(start=([1, 8, 8, 8], "int8"), steps=["maxpool2x2", "cpu_custom", "maxpool2x2"]),
            dict(start=([1, 8, 8, 8], "int8"), steps=["cpu_custom"]),
            # a CPU operator with an omitted optional operand
            dict(start=([1, 8, 8, 8], "int8"), steps=["maxpool2x2", "cpu_custom_opt"])]


def cli_cases(tier):
    """option -> values (valid ones must compile; invalid ones must be rejected by argparse/VelaError)."""
    valid = [["--verbose-all"], ["--enable-debug-db"], ["--show-cpu-operations"], ["--timing"], ["--force-symmetric-int-weights"],
             ["--show-subgraph-io-summary"], ["--subgraph-output"], ["--verbose-performance"], ["--verbose-weights"],
             ["--max-block-dependency", "0"], ["--max-block-dependency", "1"], ["--max-block-dependency", "2"],
             ["--arena-cache-size", "0"], ["--arena-cache-size", "1"], ["--arena-cache-size", "1024"],
             ["--cpu-tensor-alignment", "32"], ["--cpu-tensor-alignment", "128"], ["--cpu-tensor-alignment", "4096"],
             ["--hillclimb-max-iterations", "0"], ["--hillclimb-max-iterations", "1"], ["--recursion-limit", "2000"],
             ["--optimise", "Size"], ["--optimise", "Performance"],
             ["--tensor-allocator", "Greedy"], ["--tensor-allocator", "LinearAlloc"]]
    invalid = [["--cpu-tensor-alignment", "8"], ["--cpu-tensor-alignment", "24"], ["--max-block-dependency", "4"],
               ["--optimise", "Speed"], ["--tensor-allocator", "Best"], ["--accelerator-config", "ethos-u85"],
               ["--system-config", "Nope"], ["--memory-mode", "Nope"], ["--config", "nonexistent.ini"], ["--config", "x.txt"]]
    accs = C.ACCS if tier == "thorough" else C.ACCS[:2]
    out = []
    for ni in range(len(CLI_NETS)):
        for acc in accs:
            for v in valid:
                out.append(dict(kind="cli", net=ni, cfg=dict(acc=acc, extra=v), expect="ok"))
            for v in invalid:
                # an explicit --accelerator-config in extra overrides: put it last
                out.append(dict(kind="cli", net=ni, cfg=dict(acc=acc, extra=v), expect="reject"))
    return out


def child(case):
    kind = case.get("kind", "net")
    if kind == "net":
        mb = sweep.model_bytes(case, case.get("seed", 0))
        cfg = case["cfg"]
    elif kind == "corner":
        mb = build.serialise(corner.build_corner(case["spec"]))
        cfg = case.get("cfg", {})
    else:
        mb = build.serialise(nets.build(CLI_NETS[case["net"]], 0))
        cfg = case["cfg"]
    read.read_model(mb)  # the input itself must be a readable flatbuffer (harness sanity)
    rec = C.compile_main(mb, cfg)
    res = dict(status=rec["status"], out=rec["out"] is not None)
    if rec["out"] is not None:
        m = read.read_model(rec["out"])
        ops = [o for sg in m["subgraphs"] for o in sg["ops"]]
        res["n_ethosu"] = sum(1 for o in ops if o["custom_code"] == "ethos-u")
        res["n_cpu"] = len(ops) - res["n_ethosu"]
    return res


def judge(case, res, text):
    """Returns (verdict, key, what) - verdict in ok / rejected / violation."""
    kind = case.get("kind", "net")
    # a generated network must compile under configurations without an artificial cache limit; with a tiny
    # --arena-cache-size Vela may legitimately give up with a diagnosis (e.g. "Address offset out of range")
    expect = case.get("expect", "any" if kind == "corner" or case["cfg"].get("arena") is not None else "ok")
    if res[0] == "ok":
        r = res[1]
        if r["status"] == 0:
            if not r["out"]:
                return "violation", "status0-no-output", "main() returned 0 but wrote no output model"
            if expect == "reject":
                return "violation", "invalid-option-accepted", "invalid option value accepted"
            return "ok", None, None
        if expect == "ok":
            return "violation", "valid-rejected", "valid model/options rejected with status %s" % r["status"]
        if "Error" not in text:
            return "violation", "rejected-without-diagnosis", "non-zero status %s without an error message" % r["status"]
        return "rejected", None, None
    if res[0] == "exit":
        if res[1] in (0, None):
            return "ok", None, None
        if expect in ("reject", "any"):
            return "rejected", None, None
        return "violation", "argparse-exit", "SystemExit(%s) for valid options" % res[1]
    if res[0] == "exc" and expect == "reject":
        # an invalid option value is outside the property (it quantifies over valid option combinations);
        # all that is required is that it is not silently accepted
        return "rejected", None, None
    if res[0] == "exc":
        site = sweep.crash_site(res[3])
        return "violation", "%s@%s" % (res[1], site), "%s: %s at %s\n%s" % (res[1], res[2][:200], site, res[3][-2500:])
    if res[0] == "timeout":
        return "violation", "timeout", "compilation did not terminate within the time limit"
    return "violation", "died", "compiler process died: %s" % (res,)


def replay(ctx, case):
    from .. import isolate

    core.bind_repo()
    res, text = isolate.run_forked(child, (case,), timeout=300)
    verdict, key, what = judge(case, res, text)
    return ["%s: %s" % (key, what)] if verdict == "violation" else []


def run(ctx):
    core.bind_repo()
    plan = sweep.default_plan(ctx.tier)
    lv = sweep.levels(ctx.tier, plan)
    cases = []
    level_sizes = {}
    for name, cs in lv:
        for c in cs:
            c["kind"] = "net"
            c["seed"] = ctx.seed
            c["level"] = name
        level_sizes[name] = len(cs)
        cases += cs
    cc = corner.corner_cases(ctx.tier)
    for c in cc:
        c["level"] = "corner"
    cl = cli_cases(ctx.tier)
    for c in cl:
        c["level"] = "cli"
    level_sizes["corner"] = len(cc)
    level_sizes["cli"] = len(cl)
    cases += cc + cl
    verdicts = collections.Counter()
    done = collections.Counter()
    first = {}
    distinct = set()
    for case, res, text, secs in sweep.run_cases(cases, child, timeout=120, seed=ctx.seed):
        verdict, key, what = judge(case, res, text)
        verdicts[verdict] += 1
        done[case["level"]] += 1
        ctx.count("secs_total_x100", int(secs * 100))
        if res[0] == "ok" and res[1].get("out"):
            ctx.count("compiled")
            if res[1].get("n_ethosu"):
                ctx.count("with_npu_op")
            if res[1].get("n_cpu"):
                ctx.count("with_cpu_op")
            if res[1].get("n_ethosu", 0) > 1:
                ctx.count("multi_npu_subgraph")
            if res[1].get("n_ethosu") or case["level"] != "corner":
                distinct.add(repr(case.get("h") or case.get("spec") or (case.get("net"), case["cfg"].get("extra"))))
        if verdict == "violation":
            # identity of a crash = exception type + innermost Vela frame; other failures = their specific case
            fullkey = key if "@" in key else "%s|%s" % (key, _case_id(case))
            if fullkey not in first:
                first[fullkey] = case
                ctx.violation(fullkey, "%s  [first case: %s]\n%s" % (what, _case_id(case), text[-1500:]), case)
    if verdicts["ok"] == 0:
        ctx.inconclusive = "no case compiled"
    cov = dict(
        evaluations=sum(done.values()),
        distinct_nontrivial=len(distinct),
        rule="levels %s; every network history of the grammar level x every configuration of the named lattice, every corner model, every CLI option value; "
             "distinct non-trivial = distinct networks/corner models/option values that produced an output model (corner models only when at least one op was placed on the NPU)" % (level_sizes,),
        samples=[sweep.case_name(lv[0][1][0]), cc[0]["spec"], cl[0]["cfg"]],
        exhaustive=True,
        levels_complete={k: done[k] == v for k, v in level_sizes.items()},
        verdicts=dict(verdicts),
        bound="grammar depth <= %d (+ fork networks of depth 3)" % max(p[3] for p in plan if len(p) == 5),
    )
    return ctx.finish("exploration", cov, ["a model is 'valid' when the generator builds it from schema-valid parts; no TFLite interpreter is available to cross-check semantic validity",
                                          "non-termination is judged with a 120 s (re-run: 360 s) limit per compile (median compile: 30 ms)"])


def _case_id(case):
    if case.get("kind") == "corner":
        return "corner:%s" % (sorted(case["spec"].items()),)
    if case.get("kind") == "cli":
        return "cli:net%d:%s" % (case["net"], case["cfg"])
    return sweep.case_name(case)
