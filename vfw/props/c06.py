"""C06 - the register command stream encodes exactly the operations it was given.

Model checking: the register machine of the generator (last value written per register decides elision) is driven through
every operation list of length <= N over an alphabet of base operations and their single-field mutants (so that for
every register both "same value as before" and "different value / same payload, different parameter" histories occur),
by the real public generator.  Every emitted stream is decoded with register-state tracking (vfw/npu/decode.py) and at
every NPU_OP the register image is compared with (a) the expected image derived independently from the operation
(vfw/ref/regimage.py), (b) for values derived from quantisation (scaling) or the SHRAM layout: the image the same
operation gets when it is generated alone (no history), and the shared-buffer oracle.  The same oracle runs over every
stream of the generated networks, against the NpuOperation list captured at the generator's entry."""
import copy
import itertools

from .. import core, forced, netrun
from ..isolate import pmap
from ..npu import decode as D
from ..npu import isa, oplists
from ..ref import regimage as RI
from ..ref import shram

F = oplists.fm
HI = 1 << 32  # same low 32 bits, different bits 32..39


# ----------------------------------------------------------------------------------------------
# alphabet


def bases():
    B = {}
    B["conv"] = dict(kind="conv", ifm=F((8, 8, 16), 0x1000), ofm=F((8, 8, 16), 0x3000), kernel=[3, 3, 1, 1, 1, 1], pad=[1, 1, 1, 1],
                     weights=[[0, 0x100, 1024]], biases=[[0, 0x80, 160]], block="first", traversal="DEPTH_FIRST", act=None)
    B["dw"] = dict(kind="depthwise", ifm=F((8, 8, 16), 0x1000), ofm=F((8, 8, 16), 0x3000), kernel=[3, 3, 1, 1, 1, 1], pad=[1, 1, 1, 1],
                   weights=[[0, 0x800, 512]], biases=[[0, 0x700, 160]], block="first", act=None)
    B["maxpool"] = dict(kind="pool", sub="MAX", ifm=F((8, 8, 16), 0x1000), ofm=F((4, 4, 16), 0x3000), kernel=[2, 2, 2, 2, 1, 1], pad=[0, 0, 0, 0], block="first", act=None)
    B["avgpool"] = dict(B["maxpool"], sub="AVERAGE")
    B["avgpool_x"] = dict(B["maxpool"], sub="AVERAGE", kernel=[1, 1, 1, 1, 1, 1], ofm=F((8, 8, 16), 0x3000), rescale=dict(mult=[0x40000000], shift=[30], per_channel=False))
    B["rsum"] = dict(kind="pool", sub="REDUCE_SUM", ifm=F((8, 8, 16), 0x1000), ofm=F((8, 8, 1), 0x3000, dt="i32", noquant=False), kernel=[1, 1, 1, 1, 1, 1], pad=[0, 0, 0, 0], block="first", act=None)
    ew = dict(kind="elementwise", ifm=F((8, 8, 16), 0x1000), ifm2=F((8, 8, 16), 0x2000), ofm=F((8, 8, 16), 0x3000), block="first", act=None)
    B["add"] = dict(ew, sub="ADD")
    B["add_adv"] = dict(ew, sub="ADD", ifm2=F((8, 8, 16), 0x2000, scale=0.031))
    B["sub"] = dict(ew, sub="SUB", ifm2=F((8, 8, 16), 0x2000, scale=0.05))
    B["mul"] = dict(ew, sub="MUL")
    B["mul_r"] = dict(ew, sub="MUL", rescale=[0x50000000, 35])
    B["add_r"] = dict(ew, sub="ADD", rescale=[0x60000000, 31])
    B["mul_s"] = dict(ew, sub="MUL", ifm2=F((1, 1, 1), 0, zp=3), scalar=0.5)
    B["min"] = dict(ew, sub="MIN")
    B["abs"] = dict(kind="elementwise", sub="ABS", ifm=F((8, 8, 16), 0x1000), ofm=F((8, 8, 16), 0x3000), block="first", act=None)
    B["lrelu"] = dict(B["abs"], sub="LRELU")
    i32 = dict(kind="elementwise", ifm=F((8, 8, 16), 0x1000, dt="i32", noquant=True), ifm2=F((8, 8, 16), 0x2000, dt="i32", noquant=True),
               ofm=F((8, 8, 16), 0x3000, dt="i32", noquant=True), block="first", act=None)
    B["shl"] = dict(i32, sub="SHL")
    B["shr_s"] = dict(i32, sub="SHR", ifm2=F((1, 1, 1), 0, dt="i32", noquant=True), scalar=3)
    B["clz"] = dict(kind="elementwise", sub="CLZ", ifm=i32["ifm"], ofm=i32["ofm"], block="first", act=None)
    B["dma"] = dict(kind="dma", src=[0, 0x100, 1024], dst=[1, 0x8000, 1024])
    return B


def _set(spec, path, value):
    s = copy.deepcopy(spec)
    cur = s
    for k in path[:-1]:
        cur = cur[k]
    cur[path[-1]] = value
    return s


def fm_mutants(name, spec, which, u65):
    f = spec[which]
    h, w, c = f["shape"]
    out = []

    def m(tag, **kw):
        g = dict(copy.deepcopy(f), **kw)
        out.append(("%s.%s.%s" % (name, which, tag), dict(copy.deepcopy(spec), **{which: g})))

    m("region2", region=2)
    m("addr+64", addr=f["addr"] + 64)
    if u65:
        m("addr+4G", addr=f["addr"] + HI)
        m("addr+4G+64", addr=f["addr"] + HI + 64)
    if f["dt"] in ("i8",):
        m("u8", dt="u8")
        m("zp-5", zp=-5)
        m("zp7", zp=7)
    if f["dt"] == "u8":
        m("zp200", zp=200)
    if w >= 8 and h >= 4:
        a = f["addr"]
        m("tiles2h", tiles=dict(h0=h // 2, h1=h // 2, w0=w, addr=[a, 0, a + 0x4000, 0]))
        m("tiles4", tiles=dict(h0=h // 2, h1=h // 2 + 1, w0=w // 2, addr=[a, a + 0x4000, a + 0x8000, a + 0xC000]))
        if u65:
            m("tiles4hi", tiles=dict(h0=h // 2, h1=h // 2 + 1, w0=w // 2, addr=[a, a + HI, a + 2 * HI, a + 3 * HI]))
        m("tiles_h1_0", tiles=dict(h0=h, h1=0, w0=w, addr=[a, 0, 0, 0]))  # as the API documents an unused tile 1
    if c % 16 == 0:
        m("b16", layout="NHCWB16")
    es = oplists.ESZ[f["dt"]]
    m("strides_padded", strides=[(w + 2) * c * es, c * es, es])
    if u65:
        m("strides_big", strides=[HI + w * c * es, c * es, es])
    return out


def mutants(name, spec, u65):
    out = []
    k = spec["kind"]
    if k == "dma":
        out.append((name + ".srcreg2", dict(spec, src=[2, spec["src"][1], spec["src"][2]])))
        out.append((name + ".dstreg2", dict(spec, dst=[2, spec["dst"][1], spec["dst"][2]])))
        out.append((name + ".src+16", dict(spec, src=[0, spec["src"][1] + 16, spec["src"][2]])))
        out.append((name + ".dst+16", dict(spec, dst=[1, spec["dst"][1] + 16, spec["dst"][2]])))
        out.append((name + ".len2048", dict(spec, src=[0, 0x100, 2048], dst=[1, 0x8000, 2048])))
        out.append((name + ".ch1", dict(spec, channel=1)))
        out.append((name + ".mode1", dict(spec, mode=1)))
        if u65:
            out.append((name + ".src+4G", dict(spec, src=[0, spec["src"][1] + HI, spec["src"][2]])))
            out.append((name + ".dst+4G", dict(spec, dst=[1, spec["dst"][1] + HI, spec["dst"][2]])))
            out.append((name + ".len5", dict(spec, src=[0, 0x101, 5], dst=[1, 0x8003, 5])))  # U65: external-to-external transfers need no alignment
        return out
    for which in ("ifm", "ofm", "ifm2"):
        if spec.get(which) and not (which == "ifm2" and spec.get("scalar") is not None):
            out += fm_mutants(name, spec, which, u65)
    for r in ("TRUNCATE", "NATURAL"):
        out.append((name + ".round_" + r, dict(spec, rounding=r)))
    for tag, act in (("relu", dict(op="NONE_OR_RELU", min=0.0, max=None)), ("relu6", dict(op="NONE_OR_RELU", min=0.0, max=1.0)), ("tanh", dict(op="TANH")), ("sigmoid", dict(op="SIGMOID")),
                     ("lut0", dict(op="TABLE_LOOKUP", lut=0)), ("lut5", dict(op="TABLE_LOOKUP", lut=5)), ("lut7", dict(op="TABLE_LOOKUP", lut=7))):
        if spec["ofm"]["dt"] == "i32" and tag in ("tanh", "sigmoid"):
            continue
        if tag in ("tanh", "sigmoid") and k in ("pool",) and spec.get("rescale") is not None:
            continue
        out.append((name + ".act_" + tag, dict(spec, act=act)))
    out.append((name + ".block_last", dict(spec, block="last")))
    if k in ("conv", "depthwise", "pool"):
        kw, kh, sx, sy, dx, dy = spec["kernel"]
        ih, iw, ic = spec["ifm"]["shape"]

        def kmut(tag, kernel, pad=None, extra=None):
            s = copy.deepcopy(spec)
            s["kernel"] = kernel
            if pad is not None:
                s["pad"] = pad
            p = s["pad"]
            oh = (ih + p[0] + p[2] - (kernel[5] * (kernel[1] - 1) + 1)) // kernel[3] + 1
            ow = (iw + p[1] + p[3] - (kernel[4] * (kernel[0] - 1) + 1)) // kernel[2] + 1
            if oh < 1 or ow < 1:
                return
            s["ofm"]["shape"] = [oh, ow, s["ofm"]["shape"][2]]
            if extra:
                s.update(extra)
            out.append((name + "." + tag, s))

        kmut("k1x1", [1, 1, 1, 1, 1, 1], [0, 0, 0, 0])
        kmut("k4x4s4", [4, 4, 4, 4, 1, 1], [0, 0, 0, 0])
        kmut("k2x4s3", [2, 4, 3, 3, 1, 1], [0, 0, 0, 0])
        kmut("k3x2s1x2", [3, 2, 1, 2, 1, 1], [0, 1, 0, 1])
        kmut("k3x3s3x1", [3, 3, 3, 1, 1, 1], [1, 1, 1, 1])
        kmut("k2x2s2x1", [2, 2, 2, 1, 1, 1], [0, 0, 0, 0])
        kmut("k3x3s3x1.big", [3, 3, 3, 1, 1, 1], [1, 1, 1, 1], extra=dict(block="last"))
        # wide feature maps, so that wide OFM blocks are offered and the IFM block width (which follows the x stride) decides the bank count
        for tag, kern, pd in (("k3x3s3x1", [3, 3, 3, 1, 1, 1], [1, 1, 1, 1]), ("k3x3s1x3", [3, 3, 1, 3, 1, 1], [1, 1, 1, 1]), ("k2x2s2x1", [2, 2, 2, 1, 1, 1], [0, 0, 0, 0]), ("k3x3s1x1", [3, 3, 1, 1, 1, 1], [1, 1, 1, 1])):
            for blk in ("first", "last", "largest"):
                sw = copy.deepcopy(spec)
                sw["ifm"]["shape"] = [16, 48, sw["ifm"]["shape"][2]]
                sw["ifm"]["addr"] = 0x10000
                sw["kernel"], sw["pad"] = kern, pd
                oh_ = (16 + pd[0] + pd[2] - kern[1]) // kern[3] + 1
                ow_ = (48 + pd[1] + pd[3] - kern[0]) // kern[2] + 1
                sw["ofm"]["shape"] = [oh_, ow_, sw["ofm"]["shape"][2]]
                sw["ofm"]["addr"] = 0x20000
                sw["block"] = blk
                out.append(("%s.wide_%s.%s" % (name, tag, blk), sw))
        kmut("pad2010", [3, 3, 1, 1, 1, 1], [2, 0, 1, 0])
        kmut("pad0201", [3, 3, 1, 1, 1, 1], [0, 2, 0, 1])
        if k != "pool":
            kmut("dil2", [3, 3, 1, 1, 2, 2], [2, 2, 2, 2])
            kmut("dil2x1", [3, 3, 1, 1, 2, 1], [1, 2, 1, 2])
        if k == "pool":
            out.append((name + ".nearest", dict(spec, upscale="NEAREST", ofm=dict(spec["ofm"], shape=[spec["ofm"]["shape"][0] * 2, spec["ofm"]["shape"][1] * 2, spec["ofm"]["shape"][2]]))))
    if k in ("conv", "depthwise"):
        w, b = spec["weights"][0], spec["biases"][0]
        out.append((name + ".wreg1", dict(spec, weights=[[1, w[1], w[2]]])))
        out.append((name + ".breg1", dict(spec, biases=[[1, b[1], b[2]]])))
        out.append((name + ".w+16", dict(spec, weights=[[w[0], w[1] + 16, w[2]]])))
        out.append((name + ".wlen+16", dict(spec, weights=[[w[0], w[1], w[2] + 16]])))
        out.append((name + ".b+16", dict(spec, biases=[[b[0], b[1] + 16, b[2]]])))
        out.append((name + ".blen+16", dict(spec, biases=[[b[0], b[1], b[2] + 16]])))
        if u65:
            out.append((name + ".w+4G", dict(spec, weights=[[w[0], w[1] + HI, w[2]]])))
            out.append((name + ".b+4G", dict(spec, biases=[[b[0], b[1] + HI, b[2]]])))
    if k == "conv":
        out.append((name + ".partkernel", dict(spec, traversal="PART_KERNEL_FIRST")))
        out.append((name + ".transpose", dict(spec, upscale="TRANSPOSE", ofm=dict(spec["ofm"], shape=[16, 16, spec["ofm"]["shape"][2]]))))
        out.append((name + ".i16", dict(spec, ifm=dict(spec["ifm"], dt="i16", addr=0x1000), ofm=dict(spec["ofm"], dt="i16"))))
    if k == "pool" and isinstance(spec.get("rescale"), dict):
        r = spec["rescale"]
        out.append((name + ".shift+1", dict(spec, rescale=dict(r, shift=[r["shift"][0] + 1]))))
        out.append((name + ".mult+1", dict(spec, rescale=dict(r, mult=[r["mult"][0] + 1]))))
    if k == "elementwise":
        if isinstance(spec.get("rescale"), list):
            m_, s_ = spec["rescale"]
            out.append((name + ".shift+1", dict(spec, rescale=[m_, s_ + 1])))
            out.append((name + ".mult+1", dict(spec, rescale=[m_ + 1, s_])))
        if spec.get("ifm2") and spec.get("scalar") is None:
            out.append((name + ".reversed", dict(spec, reversed=True)))
            for tag, shp in (("bc_h", (1, 8, 16)), ("bc_w", (8, 1, 16)), ("bc_c", (8, 8, 1)), ("bc_hwc", (1, 1, 1))):
                out.append((name + "." + tag, dict(spec, ifm2=dict(spec["ifm2"], shape=list(shp)))))
            dt = spec["ifm2"]["dt"]
            out.append((name + ".scalar", dict(spec, ifm2=dict(spec["ifm2"], shape=[1, 1, 1], addr=0), scalar=(3 if dt == "i32" else 0.1))))
        if spec.get("scalar") is not None:
            out.append((name + ".scalar2", dict(spec, scalar=(5 if spec["ifm2"]["dt"] == "i32" else -0.2))))
            out.append((name + ".reversed", dict(spec, reversed=True)))
        if spec["sub"] in ("ADD", "SUB", "MUL") and spec.get("rescale") is None and spec["ifm"]["dt"] == "i8":
            out.append((name + ".oscale2x", dict(spec, ofm=dict(spec["ofm"], scale=spec["ofm"]["scale"] * 2))))
            out.append((name + ".oscale4x", dict(spec, ofm=dict(spec["ofm"], scale=spec["ofm"]["scale"] * 4))))
            out.append((name + ".noquant", dict(spec, ifm=dict(spec["ifm"], noquant=True), ifm2=dict(spec["ifm2"], noquant=True), ofm=dict(spec["ofm"], noquant=True))))
            i16 = dict(spec, ifm=dict(spec["ifm"], dt="i16"), ifm2=dict(spec["ifm2"], dt="i16"), ofm=dict(spec["ofm"], dt="i16"))
            out.append((name + ".i16", i16))
    return out


CORE = ["conv", "conv.ofm.addr+4G", "conv.w+4G", "conv.k4x4s4", "conv.act_lut5", "conv.ifm.tiles4", "dw", "dw.b+16", "maxpool", "avgpool", "avgpool.k4x4s4", "avgpool.k1x1",
        "avgpool_x", "avgpool_x.shift+1", "rsum", "add", "add_adv", "add.oscale2x", "add.reversed", "sub", "mul", "mul_r", "mul_r.shift+1", "add_r", "mul_s", "mul_s.scalar2",
        "abs", "lrelu", "shl", "shr_s", "clz", "add.ifm2.addr+4G", "add.bc_c", "dma", "dma.dst+4G", "dma.len2048", "dma.srcreg2"]

_ALPHA = {}


def alphabet(acc):
    """[(name, spec)] - specs whose block configuration search fails on this accelerator are dropped when used"""
    if acc in _ALPHA:
        return _ALPHA[acc]
    u65 = isa.ACCELERATORS[acc]["product"] == 1
    two = isa.ACCELERATORS[acc]["cores"] == 2
    A = []
    for name, s in bases().items():
        A.append((name, s))
        A += mutants(name, s, u65)
    if two:
        for name, s in list(A):
            if s["kind"] in ("conv", "depthwise") and "." not in name:
                w, b = s["weights"][0], s["biases"][0]
                A.append((name + ".2cores", dict(s, weights=[w, [w[0], w[1] + 0x2000, w[2] + 32]], biases=[b, [b[0], b[1] + 0x400, b[2]]])))
                A.append((name + ".2cores_b", dict(s, weights=[w, [w[0], w[1] + 0x2000, w[2]]], biases=[b, [b[0], b[1] + 0x400, b[2] + 16]])))
    _ALPHA[acc] = A
    return A


def illegal_alphabet(acc):
    """operations the documented alignment rules forbid: the generator must raise, never emit"""
    B = bases()
    u65 = isa.ACCELERATORS[acc]["product"] == 1
    L = []
    L.append(("conv.w+8", dict(B["conv"], weights=[[0, 0x108, 1024]])))
    L.append(("conv.wlen+8", dict(B["conv"], weights=[[0, 0x100, 1032]])))
    L.append(("conv.blen+10", dict(B["conv"], biases=[[0, 0x80, 170]])))
    L.append(("conv.ofm.b16+8", dict(B["conv"], ofm=dict(B["conv"]["ofm"], layout="NHCWB16", addr=0x3008))))
    L.append(("conv.i16.ifm+1", dict(B["conv"], ifm=dict(B["conv"]["ifm"], dt="i16", addr=0x1001), ofm=dict(B["conv"]["ofm"], dt="i16"))))
    L.append(("add.i16.stride_x3", dict(B["add"], ifm=dict(B["add"]["ifm"], dt="i16", strides=[8 * 16 * 2, 33, 2]), ifm2=dict(B["add"]["ifm2"], dt="i16"), ofm=dict(B["add"]["ofm"], dt="i16"))))
    L.append(("add.b16.stride_y8", dict(B["add"], ifm=dict(B["add"]["ifm"], layout="NHCWB16", strides=[8 * 16 + 8, 16, 128]))))
    if not u65:
        L.append(("dma.src+4", dict(B["dma"], src=[0, 0x104, 1024])))
        L.append(("dma.len+4", dict(B["dma"], src=[0, 0x100, 1028], dst=[1, 0x8000, 1028])))
    else:
        L.append(("dma.lut+8", dict(kind="dma", src=[0, 0x100, 1024], dst=[0x103, 0x8, 1024])))
        L.append(("dma.lutlen+8", dict(kind="dma", src=[0, 0x100, 1032], dst=[0x103, 0x0, 1032])))
    return L


# ----------------------------------------------------------------------------------------------
# oracle


def _cmp(name, want, got):
    if got is None:
        return "%s never written (expected %s)" % (name, _fmt(want))
    if isinstance(want, tuple):
        if not isinstance(got, tuple) or tuple(got) != tuple(want):
            return "%s = %s, expected %s" % (name, _fmt(got), _fmt(want))
    elif got != want:
        return "%s = %s, expected %s" % (name, _fmt(got), _fmt(want))
    return None


def _fmt(v):
    if isinstance(v, tuple):
        return "(payload %#x, param %#x)" % (v[0], v[1])
    return "%#x" % v if isinstance(v, int) else str(v)


def judge_op(acc, p, hw, single):
    """p: plain op, hw: decoded HwOp in the list's stream, single: decoded HwOp of the same op generated alone (or None).
    Returns [(tag, text)]"""
    out = []
    a = isa.ACCELERATORS[acc]
    want_kind = p["kind"]
    if hw.kind != want_kind:
        return [("op-kind", "NPU_OP is %s, the operation is %s" % (hw.kind, want_kind))]
    if want_kind == "dma":
        if hw.sub != p["channel"] * 16 + p["mode"]:
            out.append(("dma-param", "NPU_OP_DMA_START parameter %r, expected channel*16+mode = %d" % (hw.sub, p["channel"] * 16 + p["mode"])))
    elif want_kind in ("pool", "elementwise") and hw.sub != p["sub"]:
        out.append(("op-mode", "NPU_OP mode %s, expected %s" % (hw.sub, p["sub"])))
    R, T, skipped = RI.expected(p, acc)
    for name, want in R.items():
        got = hw.regs.get(name)
        if name == "IFM_PRECISION" and "IFM_PRECISION.op_to_scale" in skipped and got is not None:
            got &= ~0x300
        msg = _cmp(name, want, got)
        if msg:
            out.append(("reg|" + name, msg))
    for name, true, signed in T:
        if not RI.fits16(true, signed):
            out.append(("truncated|" + name, "%s: value %d does not fit the 16-bit parameter and was emitted truncated" % (name, true)))
    lim = 1 << a["addr_bits"]
    for name, v in R.items():
        if name in D.ADDR_REGS and isinstance(v, int) and not 0 <= v < lim:
            out.append(("truncated|" + name, "%s: %#x needs more than %d address bits" % (name, v, a["addr_bits"])))
    if single is not None:
        for name in sorted(skipped):
            if name == "IFM_PRECISION.op_to_scale":
                g, s = hw.regs.get("IFM_PRECISION", 0) & 0x300, single.regs.get("IFM_PRECISION", 0) & 0x300
                nm = "IFM_PRECISION[9:8]"
            else:
                g, s = hw.regs.get(name), single.regs.get(name)
                nm = name
            if g != s:
                out.append(("history|" + nm, "%s = %s after this history, %s when the same operation is generated alone" % (nm, _fmt(g) if g is not None else None, _fmt(s) if s is not None else None)))
    if want_kind != "dma":
        ifm_bits = RI.DTYPES[p["ifm"]["dt"]][0]
        for t in shram.check_registers(acc, hw.kind, hw.sub, hw.r, ifm_bits, p["ifm"]["shape"][2], (p["ofm"]["shape"][0], p["ofm"]["shape"][1])):
            out.append(("shram", t))

        def rg(n):
            if n == "__binary__":
                return 1 if (want_kind == "elementwise" and p["sub"] not in RI.UNARY) else 0
            return hw.r(n)

        for t in RI.alignment_problems(want_kind, rg, a["cores"]):
            out.append(("alignment", t))
    return out


def judge_stream(acc, plains, words, singles):
    """Returns [(op index, tag, text)]"""
    hw, problems = D.decode(words)
    out = [(-1, "structure", pr) for pr in problems]
    if len(hw) != len(plains):
        out.append((-1, "op-count", "%d NPU_OP commands for %d operations" % (len(hw), len(plains))))
        return out
    if sum(1 for w_ in _cmd_codes(words) if w_ == 0) != 1:
        out.append((-1, "structure", "not exactly one NPU_OP_STOP"))
    for i, (p, h) in enumerate(zip(plains, hw)):
        for tag, text in judge_op(acc, p, h, singles[i] if singles else None):
            out.append((i, tag, text))
    return out


def _cmd_codes(words):
    i = 0
    while i < len(words):
        w = words[i]
        if (w & 0xC000) == 0x4000:
            i += 2
            yield -1
        else:
            i += 1
            yield w & 0x3FF if (w & 0xC000) == 0 else -1


_SINGLE = {}


def _gen(acc, specs):
    """-> (plains, words) | (None, error string)"""
    from ethosu.vela import api
    from ethosu.vela.errors import VelaError

    ae = oplists.acc_enum(api, acc)
    try:
        ops = [oplists.build_op(api, s, ae) for s in specs]
        if any(o is None for o in ops):
            return None, "no-block-config"
        plains = [RI.plain(o) for o in ops]
        words = api.npu_generate_register_command_stream(ops, ae)
    except VelaError as e:
        return None, "VelaError:%s:%s" % (type(e).__name__, str(e)[:120])
    return plains, words


def single_image(acc, name, spec):
    k = (acc, name)
    if k not in _SINGLE:
        plains, words = _gen(acc, [spec])
        if plains is None:
            _SINGLE[k] = (None, words)
        else:
            hw, problems = D.decode(words)
            _SINGLE[k] = (hw[0] if len(hw) == 1 else None, None)
    return _SINGLE[k]


def run_list(acc, seq, alpha):
    """Returns (status, findings) : status 'ok' | 'rejected:<why>'"""
    specs = [alpha[n] for n in seq]
    singles = []
    for n, s in zip(seq, specs):
        img, err = single_image(acc, n, s)
        if img is None and err:
            return "unusable:" + err, []
        singles.append(img)
    plains, words = _gen(acc, specs)
    if plains is None:
        return "rejected:" + words, [(-1, "legal-rejected", "a list of operations that are each accepted alone is rejected: %s" % words)]
    return "ok", judge_stream(acc, plains, words, singles)


def _shard(args):
    acc, first, n, names = args
    core.bind_repo(need_codec=False)
    alpha = dict(alphabet(acc))
    stats = dict(lists=0, judged=0, ops_judged=0)
    out = []
    for rest in itertools.product(names, repeat=n - 1):
        seq = (first,) + rest
        stats["lists"] += 1
        status, findings = run_list(acc, seq, alpha)
        if status.startswith("unusable"):
            stats["unusable"] = stats.get("unusable", 0) + 1
            continue
        stats["judged"] += 1
        stats["ops_judged"] += len(seq)
        for i, tag, text in findings:
            out.append((acc, seq, i, tag, text))
    return stats, out


def _usable(args):
    acc, = args
    core.bind_repo(need_codec=False)
    ok, bad = [], []
    out = []
    for n, s in alphabet(acc):
        img, err = single_image(acc, n, s)
        if img is None:
            bad.append((n, err))
            continue
        ok.append(n)
    for n, s in illegal_alphabet(acc):
        why = None
        try:
            from ethosu.vela import api

            op = oplists.build_op(api, s, oplists.acc_enum(api, acc))
            why = RI.illegal(RI.plain(op), acc) if op is not None else None
        except Exception:
            pass
        plains, words = _gen(acc, [s])
        if plains is not None:
            out.append((acc, (n,), 0, "illegal-accepted", "the operation breaks a hardware alignment rule (%s) and a stream was emitted for it" % ("; ".join(why or ["?"]))))
        elif why is not None and not why:
            out.append((acc, (n,), 0, "harness", "illegal alphabet entry is not illegal for the oracle"))
    return acc, ok, bad, out


def _elision_stats(acc, seq, alpha):
    """how many of the registers judged at the last op were NOT written between the previous NPU_OP and this one"""
    plains, words = _gen(acc, [alpha[n] for n in seq])
    if plains is None:
        return 0, 0
    hw, _ = D.decode(words)
    R, T, sk = RI.expected(plains[-1], acc)
    names = set(R) | {s for s in sk if "." not in s}
    return len(names), len([n for n in names if n not in hw[-1].written])


def replay(ctx, case):
    if case.get("waits"):
        lists, bad = _wait_shard((case["acc"], case["seq"][0], 1)) if len(case["seq"]) == 1 else (0, [])
        if len(case["seq"]) > 1:
            from . import c04

            core.bind_repo(need_codec=False)
            alpha = dict(c04.alphabet(case["acc"]))
            res, err = c04.run_list(case["acc"], [alpha[x] for x in case["seq"]])
            return [h["what"] for h in (res["hazards"] if res else [])]
        return [b[3] for b in bad]
    if case.get("unit"):
        core.bind_repo(need_codec=False)
        if case.get("illegal"):
            spec = dict(illegal_alphabet(case["acc"]))[case["seq"][0]]
            plains, words = _gen(case["acc"], [spec])
            return ["illegal operation accepted"] if plains is not None else []
        alpha = dict(alphabet(case["acc"]))
        status, findings = run_list(case["acc"], tuple(case["seq"]), alpha)
        return ["op %d: %s: %s" % f for f in findings]
    return netrun.replay_case(net_oracle, case)


def net_oracle(case, rec, an, streams, mb):
    """every stream the compiler emitted for the network, against the NpuOperation list captured at the generator entry"""
    viol = []
    stats = dict(streams=0, ops_judged=0, elided_registers_checked=0, registers_compared=0)
    acc = case["cfg"].get("acc", "ethos-u65-256")
    core.bind_repo(need_codec=False)
    from ethosu.vela import register_command_stream_generator as G
    from ethosu.vela.architecture_features import Accelerator, create_default_arch

    arch = None
    for si, s in enumerate(streams):
        if s.side is None:
            continue
        if s.problems:
            viol.append(("structure|stream%d" % si, "; ".join(s.problems)))
            continue
        ops = [o for o in s.side["npu_ops"]]
        plains = [RI.plain(o) for o in ops]
        if list(s.side["words"]) != list(s.words):
            viol.append(("stream-differs|stream%d" % si, "the command words stored in the output file differ from the words the generator returned"))
            continue
        if arch is None:
            arch = create_default_arch(Accelerator(s.side["acc"]))
        singles = []
        cache = {}
        for o, p in zip(ops, plains):
            key = repr(sorted(p.items(), key=lambda kv: kv[0]))
            if key not in cache:
                try:
                    w1 = G.generate_command_stream([o], arch, False, s.side["mem_limits"])
                    h1, _ = D.decode(w1)
                    cache[key] = h1[0] if len(h1) == 1 else None
                except Exception:
                    cache[key] = None
            singles.append(cache[key])
        stats["streams"] += 1
        stats["ops_judged"] += len(plains)
        hw = s.ops
        for i, tag, text in judge_stream(acc, plains, list(s.words), singles):
            kind = plains[i]["kind"] if i >= 0 else "-"
            viol.append(("%s|%s/%s" % (tag, kind, plains[i].get("sub") if i >= 0 else "-"), "stream %d op %d: %s" % (si, i, text)))
        for p, h in zip(plains, hw):
            R, T, sk = RI.expected(p, acc)
            names = set(R) | {x for x in sk if "." not in x}
            stats["registers_compared"] += len(names)
            stats["elided_registers_checked"] += len([n for n in names if n not in h.written])
    return viol, stats


def _key(key, name):
    return key


WAIT_ALPHA = ["dmaF>Zt1mid", "dmaZt1mid>W", "convX4tilesB>Y", "convY>X4tilesB", "convX4tiles>Y", "convY>X4tiles", "dmaX>Y", "dmaY>X", "dmaF>Xtail", "dmaXtail>Z",
              "convX>Y", "convY>X", "dmaF>LUT", "addXs>Y_lut", "maxpoolY>Z_lut", "dmaF>W", "convX>Y_w"]


def _wait_shard(args):
    """'waits precede the operation they guard': every list of <= 3 operations over DMAs, tiled feature maps (equal and unequal tile
    heights), weight buffers and table users, through the public generator; the emitted stream (with its wait commands) is explored by the
    asynchronous model of C04 - a missing wait shows as two conflicting activities in flight"""
    from . import c04

    acc, first, n = args
    core.bind_repo(need_codec=False)
    alpha = dict(c04.alphabet(acc))
    out = []
    lists = 0
    for rest in itertools.product(WAIT_ALPHA, repeat=n - 1):
        seq = (first,) + rest
        res, err = c04.run_list(acc, [alpha[x] for x in seq])
        if res is None:
            continue
        lists += 1
        for h in res["hazards"]:
            out.append((acc, seq, h["kind"], h["what"]))
    return lists, out[:20]


def run(ctx):
    core.bind_repo(need_codec=False)
    quick = ctx.tier == "quick"
    accs = ["ethos-u55-128", "ethos-u65-256", "ethos-u65-512"] if quick else list(isa.ACCELERATORS)
    wseen = set()
    for lists, bad in pmap(_wait_shard, [(a, f, n) for a in ("ethos-u55-64", "ethos-u55-128", "ethos-u65-512") for f in WAIT_ALPHA for n in ((1, 2) if quick else (1, 2, 3))]):
        ctx.merge_counters(dict(wait_lists=lists))
        for acc_, seq, kind, what in bad:
            k = "waits|%s|%s|%s" % (acc_, kind, ">".join(seq[-2:]))
            if k not in wseen:
                wseen.add(k)
                ctx.violation(k, "%s  [op list %s on %s]" % (what, list(seq), acc_), dict(waits=True, acc=acc_, seq=list(seq)))
    usable = {}
    for acc, ok, bad, out in pmap(_usable, [(a,) for a in accs]):
        usable[acc] = ok
        ctx.merge_counters(dict(unit_alphabet=len(ok), unit_alphabet_unusable=len(bad), unit_illegal_ops=len(illegal_alphabet(acc))))
        for n, err in bad:
            ctx.merge_counters({"unusable:" + (err or "?")[:40]: 1})
        for acc_, seq, i, tag, text in out:
            ctx.violation("unit|%s|%s|%s" % (acc_, tag, ">".join(seq)), "%s  [%s on %s]" % (text, list(seq), acc_), dict(unit=True, illegal=True, acc=acc_, seq=list(seq)))
    shards = []
    for acc in accs:
        names = usable[acc]
        core3 = [n for n in CORE if n in names]
        for first in names:
            shards.append((acc, first, 1, names))
            if quick and "." in first:
                # quick: a mutant is paired with every base operation and with every mutant of its own base (the pairs that differ
                # in one or two fields of the same operation); thorough: the full product
                base = first.split(".")[0]
                shards.append((acc, first, 2, [n for n in names if "." not in n or n.split(".")[0] == base]))
            else:
                shards.append((acc, first, 2, names))
        d3 = core3 if quick else [n for n in names if n.count(".") == 0 or n in core3 or n.endswith("+4G") or "shift+1" in n]
        for first in d3:
            shards.append((acc, first, 3, d3))
    seen = set()
    for stats, bad in pmap(_shard, shards):
        ctx.merge_counters({"unit_" + k: v for k, v in stats.items()})
        for acc, seq, i, tag, text in bad:
            # key by root cause: tag + the operation judged + the operation before it
            who = seq[i] if i >= 0 else "-"
            prev = seq[i - 1] if i > 0 else "-"
            k = "unit|%s|%s|%s<%s" % (acc, tag, who, prev)
            if k in seen:
                continue
            seen.add(k)
            ctx.violation(k, "op %d: %s  [op list %s on %s]" % (i, text, list(seq), acc), dict(unit=True, acc=acc, seq=list(seq)))
    # how much elision the pair level exercises (sampled exactly on the core pairs of the first accelerator)
    alpha = dict(alphabet(accs[0]))
    core3 = [n for n in CORE if n in usable[accs[0]]]
    tot = eli = 0
    for a_, b_ in itertools.product(core3, repeat=2):
        t, e = _elision_stats(accs[0], (a_, b_), alpha)
        tot += t
        eli += e
    ctx.merge_counters(dict(unit_core_pair_registers=tot, unit_core_pair_registers_elided=eli))
    plan = None
    from ..tfl import nets

    if quick:
        plan = [("G1xC8", nets.STARTS_Q, nets.SIGMA_Q, 1, "c8"), ("G2xC2", nets.STARTS_Q[:2], nets.SIGMA_Q, 2, "c2")]
    return netrun.run(
        ctx, net_oracle, "model_checking",
        rule="(a) every op list of length 1 and 2 over the alphabet (base operations x single-field mutants, %s; quick tier: pairs with at least one base operation or two mutants of one base) and of length 3 over the core alphabet through "
             "api.npu_generate_register_command_stream; (b) every stream emitted for the network sweep against the NpuOperation list captured at the generator's entry; "
             "a state is the decoded register file at an NPU_OP, a transition is one operation of a list" % accs,
        assumptions=["register semantics as pinned in vfw/npu/decode.py / vfw/ref/regimage.py (field positions, precision/broadcast/kernel-stride encodings, default strides)",
                     "values derived from quantisation (OFM/OPA/OPB scale, operand-to-scale) and the SHRAM partition are judged by history-independence (same image as when generated alone) "
                     "and by the shared-buffer oracle; their numeric derivation is C09/C15 territory",
                     "registers the hardware does not read for an operation kind (kernel registers of elementwise ops, HEIGHT1 of a map without tile 1, OFM_SCALE without global scaling) are not compared",
                     "legal = within the documented alignment rules and 16-bit/40-bit field ranges; semantically odd but encodable operations are encoded as given"],
        plan=plan, extra_cases=forced.forced_cases(ctx.tier), nontrivial_stat="ops_judged", key_fn=_key, model_checking=True,
        extra_cov=dict(states=ctx.counters.get("unit_ops_judged", 0), transitions=ctx.counters.get("unit_ops_judged", 0), unit_lists=ctx.counters.get("unit_lists", 0),
                       unit_lists_judged=ctx.counters.get("unit_judged", 0)))
