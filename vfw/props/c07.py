"""C07 - weight compression is lossless, hardware-ordered and memory-safe (C codec compiled from the tree).

(a) every sequence over {-2..2} up to length 7 (thorough 8), over {-255,-128,0,127,255} up to length 5 (6), over {0,1} up to
    length 12 (14) through encode -> reference decode;
(b) enumerated long families (length x palette size x zero-run length x magnitude profile) chosen from the encoder's branches;
(c) reorder: position-coded weight volumes over (accelerator ublocks, ifm bits, traversal, depthwise, dilation, kernel, depths,
    block depth) against the independent traversal model;
(d) out-of-range weights must be rejected at every entry point;
(e) families (a)-(c) through a stand-alone driver built from the tree's C sources with ASan+UBSan and asserts enabled."""
import hashlib
import itertools
import os
import struct
import subprocess

import numpy as np

from .. import core
from ..isolate import pmap
from ..npu import isa
from ..ref import traversal as T


def codec():
    core.bind_repo()
    from ethosu import mlw_codec

    return mlw_codec


def roundtrip(seq):
    """returns None or a problem string"""
    mc = codec()
    try:
        enc = mc.encode([int(v) for v in seq])
    except Exception as e:
        return "encode raised %s: %s" % (type(e).__name__, str(e)[:60])
    if len(enc) % 16:
        return "stream length %d not a multiple of 16" % len(enc)
    dec = mc.decode(bytearray(enc))
    n = len(seq)
    if len(dec) < n or list(dec[:n]) != [int(v) for v in seq]:
        return "decode(encode(w)) != w (length %d -> %d; first diff at %s)" % (n, len(dec), next((i for i in range(min(n, len(dec))) if dec[i] != seq[i]), "end"))
    if any(v != 0 for v in dec[n:]):
        return "non-zero padding after the weights"
    return None


def _short_shard(args):
    alphabet, length, first = args
    bad = []
    n = 0
    for rest in itertools.product(alphabet, repeat=length - 1):
        seq = (first,) + rest
        n += 1
        p = roundtrip(seq)
        if p:
            bad.append((seq, p))
            if len(bad) > 5:
                break
    return n, bad


def family(L, palette, zrun, profile):
    """deterministic long vector: `palette` distinct magnitudes following `profile`, zero runs of length zrun between groups"""
    if profile == "flat":
        vals = [((i % palette) + 1) * (1 if i % 2 else -1) for i in range(palette)]
    elif profile == "ramp":
        vals = [min(255, 1 + (i * 255) // max(palette, 1)) * (1 if i % 3 else -1) for i in range(palette)]
    elif profile == "twolevel":
        vals = [(1 + i % 3) if i % 2 else -(200 + i % 50) for i in range(palette)]
    elif profile == "geometric":
        vals = [min(255, int(1.5 ** (i % 14)) + (i // 14)) * (1 if i % 2 else -1) for i in range(palette)]
    elif profile == "far":  # all magnitudes >= 16 (direct-mode offsets)
        vals = [min(255, 20 + i * 3) * (1 if i % 2 else -1) for i in range(palette)]
    else:  # alternating sections: first half small palette, second half disjoint values
        vals = [((i % 4) + 1) for i in range(palette)]
    vals = [max(-255, min(255, v)) or 1 for v in vals]
    out = []
    i = 0
    while len(out) < L:
        if profile == "sections" and len(out) > L // 2:
            out.append(-min(255, 100 + (i % max(palette, 1))))
        else:
            out.append(vals[i % len(vals)])
        i += 1
        if zrun and i % 5 == 0:
            out.extend([0] * zrun)
    return out[:L]


def family_points(tier):
    if tier == "quick":
        Ls = [1, 2, 15, 16, 17, 63, 64, 65, 127, 128, 1000, 32766, 32767, 32768, 32769]
        pals = [1, 2, 3, 15, 16, 17, 31, 32, 33, 64, 256]
        zs = [0, 1, 2, 15, 16, 17, 64, 1000]
    else:
        Ls = list(range(1, 71)) + [127, 128, 129, 130, 1000, 4096, 32766, 32767, 32768, 32769, 32770, 65535, 65536, 65537, 100000]
        pals = [1, 2, 3, 15, 16, 17, 31, 32, 33, 64, 256, 511]
        zs = [0, 1, 2, 14, 15, 16, 17, 63, 64, 1000]
    profiles = ["flat", "ramp", "twolevel", "geometric", "far", "sections"]
    return [(L, p, z, pr) for L in Ls for p in pals for z in zs for pr in profiles]


def _family_shard(points):
    bad = []
    for pt in points:
        seq = family(*pt)
        p = roundtrip(seq)
        if p:
            bad.append((pt, p))
    return len(points), bad


def reorder_points(tier):
    accs = ["ethos-u55-32", "ethos-u55-128", "ethos-u65-256"] if tier == "quick" else list(isa.ACCELERATORS)
    ublocks = sorted({(isa.ACCELERATORS[a]["ifm_ublock"][2], isa.ACCELERATORS[a]["ofm_ublock"][2]) for a in accs})
    ks = [(1, 1), (3, 3), (2, 5), (9, 1)] if tier == "quick" else [(h, w) for h in (1, 2, 3, 5, 9) for w in (1, 2, 3, 5, 9)]
    ids = [1, 3, 8, 17, 33] if tier == "quick" else [1, 3, 8, 16, 17, 33]
    ods = [1, 7, 9, 17] if tier == "quick" else [1, 7, 8, 9, 16, 17]
    pts = []
    for (iu, ou) in ublocks:
        for bits in (8, 16):
            for mode in ("depth", "part", "dw"):
                for dil in ((1, 1), (2, 2)) if tier == "quick" else ((1, 1), (2, 1), (1, 2), (2, 2)):
                    for (kh, kw) in ks:
                        for idp in ids:
                            if mode == "dw" and idp != 1:
                                continue
                            for od in ods:
                                for bd in (8, 16, 32):
                                    pts.append((iu, ou, bits, mode, dil, kh, kw, idp, od, bd))
    if tier == "quick":
        # asymmetric dilations (the sub-kernel decomposition differs per axis) on kernels wider / taller than one sub-kernel
        for (iu, ou) in ublocks:
            for bits in (8, 16):
                for mode in ("depth", "part", "dw"):
                    for dil in ((2, 1), (1, 2)):
                        for (kh, kw) in ((2, 5), (5, 2), (3, 6), (6, 3), (1, 9), (9, 1)):
                            for idp in ((1,) if mode == "dw" else (3, 17)):
                                for od in (7, 17):
                                    pts.append((iu, ou, bits, mode, dil, kh, kw, idp, od, 16))
    return pts


def coded_weights(o, h, w, i, variant):
    oc, ky, kx, ic = np.meshgrid(np.arange(o), np.arange(h), np.arange(w), np.arange(i), indexing="ij")
    if variant == 0:
        return ((oc * 7 + ky * 5 + kx * 3 + ic * 11) % 255 - 127).astype(np.int16)
    return ((oc * 3 + ky * 11 + kx * 7 + ic * 5) % 251 - 125).astype(np.int16)


def _reorder_shard(points):
    mc = codec()
    bad = []
    n = 0
    for (iu, ou, bits, mode, dil, kh, kw, idp, od, bd) in points:
        for variant in (0, 1):
            W = coded_weights(od, kh, kw, idp, variant)
            n += 1
            try:
                enc, padded = mc.reorder_encode(iu, ou, W, bd, mode == "dw", mode == "part", bits, 8 // dil[1], 8 // dil[0])
            except Exception as e:
                bad.append(((iu, ou, bits, mode, dil, kh, kw, idp, od, bd), "reorder_encode raised %s" % type(e).__name__))
                break
            if len(enc) % 16:
                bad.append(((iu, ou, bits, mode, dil, kh, kw, idp, od, bd), "stream length %d not a multiple of 16" % len(enc)))
                break
            dec = np.asarray(mc.decode(bytearray(enc)), dtype=np.int64)
            exp = T.reorder(W.astype(np.int64), ofm_block_depth=bd, ifm_ublock_depth=iu, ofm_ublock_depth=ou, is_depthwise=mode == "dw", is_partkernel=mode == "part",
                            ifm_bits=bits, decomp_h=8 // dil[1], decomp_w=8 // dil[0])
            if len(dec) < len(exp) or not np.array_equal(dec[:len(exp)], exp) or (dec[len(exp):] != 0).any() or padded != len(exp):
                k = next((j for j in range(min(len(dec), len(exp))) if dec[j] != exp[j]), "length")
                bad.append(((iu, ou, bits, mode, dil, kh, kw, idp, od, bd), "decoded stream differs from the hardware traversal order (first at position %s; %d vs %d values, padded_length %s)" % (k, len(dec), len(exp), padded)))
                break
    return n, bad


def rejection_cases():
    out = []
    for v in (256, -256, 300, 32767, -32768):
        for pos in ("first", "middle", "last"):
            out.append((v, pos))
    # values that only fit a wider element type and whose low 16 bits look like a legal weight (a narrowing conversion would hide them)
    for v in (65536, 65543, -65536, -65529, 65536 + 255, (1 << 31) - 1, -(1 << 31), (1 << 17) + 3):
        for pos in ("first", "last"):
            out.append((v, pos))
    return out


def check_rejection(v, pos):
    """returns list of entry points that ACCEPTED the out-of-range weight"""
    mc = codec()
    from ethosu.vela import api
    from ethosu.vela import weight_compressor as wc
    from ethosu.vela.architecture_features import Accelerator

    accepted = []
    base = [1, -2, 3, 0, 0, 5, -7, 9, 11, -13, 2, 4, 6, 8, 10, 12]
    idx = {"first": 0, "middle": 7, "last": 15}[pos]
    seq = list(base)
    seq[idx] = v
    try:
        mc.encode(seq)
        accepted.append("mlw_codec.encode")
    except Exception:
        pass
    wide = not -32768 <= v <= 32767
    dtypes = [np.int16] if not wide else [np.int32, np.int64]
    for dt in dtypes:
        W = np.asarray(seq, dtype=dt).reshape(2, 2, 2, 2) if not (v < 0 and np.dtype(dt).kind == "u") else None
        tag = "" if not wide else "[%s volume]" % np.dtype(dt).name
        try:
            mc.reorder_encode(8, 8, W, 8, False, False, 8, 8, 8)
            accepted.append("mlw_codec.reorder_encode" + tag)
        except Exception:
            pass
        try:
            wc.encode_weights(Accelerator.Ethos_U55_128, W, (1, 1), 8, 8, False, api.NpuBlockTraversal.DEPTH_FIRST)
            accepted.append("weight_compressor.encode_weights" + tag)
        except Exception:
            pass
        try:
            api.npu_encode_weights(api.NpuAccelerator.Ethos_U55_128, W, (1, 1), 8, 8, False, api.NpuBlockTraversal.DEPTH_FIRST)
            accepted.append("api.npu_encode_weights" + tag)
        except Exception:
            pass
    return accepted


# ---- (e) sanitizer build --------------------------------------------------------------------------------
def build_sanitizer_driver():
    srcdir = os.path.join(core.REPO, "ethosu", "mlw_codec")
    drv = os.path.join(core.VERIF, "vfw", "c", "mlw_san_driver.c")
    h = hashlib.sha256()
    for fn in ("mlw_encode.c", "mlw_decode.c", "mlw_common.h", "mlw_encode.h", "mlw_decode.h"):
        h.update(open(os.path.join(srcdir, fn), "rb").read())
    h.update(open(drv, "rb").read())
    outdir = os.path.join(core.VERIF, ".cache", "mlw", "san-" + h.hexdigest()[:20])
    exe = os.path.join(outdir, "mlw_san_driver")
    if os.path.exists(exe):
        return exe
    os.makedirs(outdir, exist_ok=True)
    tmp = exe + ".%d.tmp" % os.getpid()
    cmd = ["clang", "-g", "-O1", "-fsanitize=address,undefined", "-fno-sanitize-recover=undefined", "-fno-omit-frame-pointer", "-UNDEBUG",
           "-I" + srcdir, drv, os.path.join(srcdir, "mlw_encode.c"), os.path.join(srcdir, "mlw_decode.c"), "-lm", "-o", tmp]
    r = subprocess.run(cmd, capture_output=True, text=True)
    if r.returncode != 0:
        raise core.HarnessError("sanitizer build failed: %s" % r.stderr[-1500:])
    os.replace(tmp, exe)
    return exe


def _san_shard(args):
    exe, records = args
    buf = bytearray()
    for rec in records:
        if rec[0] == "E":
            seq = rec[1]
            buf += b"E" + struct.pack("<I", len(seq)) + np.asarray(seq, dtype=np.int16).tobytes()
        else:
            (iu, ou, bits, mode, dil, kh, kw, idp, od, bd) = rec[1]
            W = coded_weights(od, kh, kw, idp, 0)
            buf += b"R" + struct.pack("<12i", iu, ou, od, kh, kw, idp, bd, int(mode == "dw"), int(mode == "part"), bits, 8 // dil[1], 8 // dil[0]) + W.tobytes()
    env = dict(os.environ, ASAN_OPTIONS="detect_leaks=0:abort_on_error=0:halt_on_error=1", UBSAN_OPTIONS="print_stacktrace=1:halt_on_error=1")
    try:
        r = subprocess.run([exe], input=bytes(buf), capture_output=True, env=env, timeout=600)
    except subprocess.TimeoutExpired as e:
        done = (e.stdout or b"").decode("utf-8", "replace").splitlines()
        k = len(done)
        return k, [(records[k] if k < len(records) else None, "sanitizer driver did not return within 600 s at record %d (codec loops on this input)" % k)]
    lines = r.stdout.decode("utf-8", "replace").splitlines()
    bad = []
    if r.returncode != 0 or len(lines) != len(records):
        k = len(lines)
        bad.append((records[k] if k < len(records) else None, "sanitizer driver stopped (exit %d) at record %d: %s" % (r.returncode, k, r.stderr.decode("utf-8", "replace")[-600:])))
    for rec, line in zip(records, lines):
        if line.startswith("mismatch"):
            bad.append((rec, "driver: " + line))
    return len(lines), bad


def _guard(fn, args, ident, per_item=None):
    """runs one shard in a forked child with a time limit: a codec that loops on a stream (encoder or decoder) must become a
    finding, not a hung check.  On a timeout the shard's items are retried one by one to name the culprit."""
    from .. import isolate

    res, _ = isolate.run_forked(fn, (args,), timeout=600, capture=False)
    if res[0] == "ok":
        return res[1]
    bad = []
    if per_item is not None:
        for it in per_item:
            r1, _ = isolate.run_forked(fn, ([it],), timeout=30, capture=False)
            if r1[0] == "ok":
                bad += list(r1[1][1])
            else:
                bad.append((it, "codec did not return for this input (%s after 30 s)" % r1[0] if r1[0] == "timeout" else "codec process %s" % (r1[:3],)))
    else:
        bad.append((ident, "codec did not return (%s) for some input of shard %s" % (res[0], ident)))
    return 0, bad


def _short_shard_g(args):
    return _guard(_short_shard, args, ("shard",) + tuple(args[1:]))


def _family_shard_g(points):
    return _guard(_family_shard, points, None, per_item=points)


def _reorder_shard_g(points):
    return _guard(_reorder_shard, points, None, per_item=points)


def _reslice_child(args):
    """the same weight tensor encoded for several depth slicings in ONE process (what the scheduler does when it tries weight-buffering
    schemes): every result must decode, range by range, to the weights of its own slicing"""
    acc, kind, seqs = args
    core.bind_repo()
    from . import c08

    probs = []
    shared = {}
    for sl in seqs:
        req = dict(kind=kind, depth=sl[-1], blk=16, slices=list(sl), acc=acc, dt="int8", per_channel=True, wzp=0, k=(3, 3), ic=8, dil=(1, 1), wseed=3, bseed=0)
        try:
            w, s_, wt, bt, op = c08.encode(req, shared)
            pr = c08.judge(req, w, s_, wt, bt)
        except Exception as e:  # noqa
            pr = ["encode failed: %s: %s" % (type(e).__name__, str(e)[:120])]
        probs += ["slicing %s after %s: %s" % (list(sl), [list(x) for x in seqs[:seqs.index(sl)]], p_) for p_ in pr[:2]]
    return probs


RESLICE = [[(0, 16, 48, 64), (0, 16, 32, 48, 64)], [(0, 16, 32, 48, 64), (0, 16, 48, 64)], [(0, 32, 64), (0, 32, 48, 64), (0, 64)], [(0, 16, 64), (0, 16, 32, 64), (0, 16, 32, 48, 64)],
           # OFM depths that do not divide among two cores (the cores' shares of a slice differ by one channel), a one-channel last slice included
           [(0, 16, 49), (0, 16, 32, 49), (0, 49)], [(0, 17), (0, 16, 17)], [(0, 32, 33), (0, 16, 33)]]


def replay(ctx, case):
    if case.get("kind") == "reslice":
        from .. import isolate

        res, _ = isolate.run_forked(_reslice_child, ((case["acc"], case["op"], [tuple(x) for x in case["seqs"]]),), timeout=300)
        return list(res[1]) if res[0] == "ok" else ["child %s" % (res[:3],)]
    if "h" in case:
        from .. import netrun
        from . import c01

        return netrun.replay_case(c01.oracle, case)
    k = case["kind"]
    if k == "seq":
        p = roundtrip(case["seq"])
        return [p] if p else []
    if k == "family":
        p = roundtrip(family(*case["point"]))
        return [p] if p else []
    if k == "reorder":
        n, bad = _reorder_shard([tuple(tuple(x) if isinstance(x, list) else x for x in case["point"])])
        return [b[1] for b in bad]
    if k == "reject":
        from .. import isolate

        res, _ = isolate.run_forked(check_rejection, (case["v"], case["pos"]), timeout=120)
        if res[0] != "ok":
            return ["process %s" % (res[:2],)]
        return ["accepted by " + ", ".join(res[1])] if res[1] else []
    if k == "san":
        exe = build_sanitizer_driver()
        rec = tuple(case["rec"])
        rec = (rec[0], tuple(tuple(x) if isinstance(x, list) else x for x in rec[1]) if rec[0] == "R" else rec[1])
        n, bad = _san_shard((exe, [rec]))
        return [b[1] for b in bad]
    return []


def run(ctx):
    core.bind_repo()
    quick = ctx.tier == "quick"
    # (a)
    shards = []
    for alpha, maxlen in (((-2, -1, 0, 1, 2), 7 if quick else 8), ((-255, -128, 0, 127, 255), 5 if quick else 6), ((0, 1), 12 if quick else 14)):
        for L in range(1, maxlen + 1):
            for first in alpha:
                shards.append((alpha, L, first))
    for n, bad in pmap(_short_shard_g, shards):
        ctx.count("short_sequences", n)
        for seq, p in bad:
            ctx.violation("roundtrip|short|%s" % p.split("(")[0][:40], "%s for sequence %s" % (p, list(seq)), dict(kind="seq", seq=list(seq)))
    # (b)
    pts = family_points(ctx.tier)
    for n, bad in pmap(_family_shard_g, [pts[i:i + 40] for i in range(0, len(pts), 40)]):
        ctx.count("family_vectors", n)
        for pt, p in bad:
            ctx.violation("roundtrip|family|profile=%s|%s" % (pt[3], p.split("(")[0][:40]), "%s for family (length %d, palette %d, zero-run %d, %s)" % (p, *pt), dict(kind="family", point=list(pt)))
    # (c)
    rp = reorder_points(ctx.tier)
    for n, bad in pmap(_reorder_shard_g, [rp[i:i + 60] for i in range(0, len(rp), 60)]):
        ctx.count("reorder_volumes", n)
        for pt, p in bad:
            ctx.violation("reorder|%s|bits%d|%s" % (pt[3], pt[2], p.split("(")[0][:40]), "%s for (ifm_ublock %d, ofm_ublock %d, bits %d, %s, dilation %s, kernel %dx%d, ifm depth %d, ofm depth %d, block depth %d)" % (p, *pt),
                          dict(kind="reorder", point=list(pt)))
    # (d) each case in a forked child: an encoder fed out-of-range weights may corrupt memory
    from .. import isolate

    for v, pos in rejection_cases():
        res, _ = isolate.run_forked(check_rejection, (v, pos), timeout=120)
        ctx.count("rejection_cases")
        if res[0] != "ok":
            ctx.violation("out-of-range-crash|%s" % (res[0],), "the process %s while encoding the out-of-range weight %d (position %s)" % ("died (signal)" if res[0] == "died" else res[:3], v, pos), dict(kind="reject", v=v, pos=pos))
            continue
        for entry in res[1]:
            ctx.violation("accepts-out-of-range|%s" % entry, "%s returned a stream for weight %d (position %s) instead of rejecting it" % (entry, v, pos), dict(kind="reject", v=v, pos=pos))
    # (e)
    exe = build_sanitizer_driver()
    recs = []
    for alpha, maxlen in (((-2, -1, 0, 1, 2), 5 if quick else 7), ((-255, -128, 0, 127, 255), 4 if quick else 5), ((0, 1), 10 if quick else 12)):
        for L in range(1, maxlen + 1):  # an empty stream is not a weight volume (reorder_encode never encodes one)
            for seq in itertools.product(alpha, repeat=L):
                recs.append(("E", list(seq)))
    stride = 7 if quick else 1
    recs += [("E", family(*pt)) for pt in pts[::stride] if pt[0] <= 40000]
    recs += [("R", pt) for pt in rp[::(5 if quick else 1)]]
    for n, bad in pmap(_san_shard, [(exe, recs[i:i + 400]) for i in range(0, len(recs), 400)]):
        ctx.count("sanitizer_records", n)
        for rec, p in bad:
            kind = "asan" if "AddressSanitizer" in p else ("ubsan" if "runtime error" in p else ("assert" if "Assertion" in p else "driver"))
            site = ""
            for line in p.splitlines():
                if "mlw_" in line and (".c:" in line):
                    site = line.strip().split(" ")[-1].split("/")[-1]
                    break
            ctx.violation("sanitizer|%s|%s" % (kind, site), p[-900:], dict(kind="san", rec=list(rec) if rec else None))
    c = ctx.counters
    cov = dict(
        evaluations=c.get("short_sequences", 0) + c.get("family_vectors", 0) + c.get("reorder_volumes", 0) + c.get("rejection_cases", 0) + c.get("sanitizer_records", 0),
        distinct_nontrivial=c.get("short_sequences", 0) + c.get("family_vectors", 0) + c.get("reorder_volumes", 0),
        rule="(a) all sequences over 3 small alphabets up to the stated lengths; (b) %d enumerated long vectors (length x palette x zero-run x 6 magnitude profiles); (c) %d position-coded volumes x 2 codings against the traversal model; "
             "(d) 15 out-of-range placements x 4 entry points; (e) %d records through the ASan+UBSan build with asserts" % (len(pts), len(rp), c.get("sanitizer_records", 0)),
        samples=[dict(seq=[-2, 0, 0, 1, 2], family=list(pts[len(pts) // 2]), reorder=list(rp[len(rp) // 2]))],
        exhaustive=True,
        bound="short alphabets exhaustive to the stated lengths; longer sequences by enumerated families",
    )
    # (R) re-slicing histories
    from .. import isolate

    for acc in ("ethos-u55-128", "ethos-u65-512"):
        for kind in ("conv", "depthwise"):
            for seqs in RESLICE:
                res, _ = isolate.run_forked(_reslice_child, ((acc, kind, seqs),), timeout=300)
                ctx.count("reslice_histories")
                pr = list(res[1]) if res[0] == "ok" else ["child %s" % (res[:3],)]
                if pr:
                    ctx.violation("reslice|%s|%s|%s" % (acc, kind, "+".join("-".join(map(str, x)) for x in seqs)), "; ".join(pr[:3]), dict(kind="reslice", acc=acc, op=kind, seqs=[list(x) for x in seqs]))
    # (N) the whole path from a .tflite file: reader layout change ([out,in]/OHWI -> [in,out]/HWIO), graph rewrites, slicing, reorder and encode.
    # Every weight-bearing operator of the compiled networks must find, through its WEIGHT registers, a stream that decodes to the SOURCE
    # model's weights in hardware order - decided by executing the stream (functional executor of C01) against the reference kernels.
    from .. import netrun, sweep
    from ..tfl import nets
    from . import c01

    winst = ["conv1x1", "conv3x3", "conv3x3s2", "conv3x3d2", "dw3x3", "dw3x3s2", "fc", "fc_fc_sq", "conv_c3_sq", "tconv_s2", "conv_pair_shared", "conv3x3_c1"]
    if not quick:
        winst += ["conv3x3d2x1", "conv3x3d1x2", "dw3x3d2x1", "conv5x5_c24", "conv2x2v", "dw5x5v", "dw3x3_dm2", "conv3x3d3", "conv3x3d4x3", "conv_pair_shared_d3", "conv_pair_shared_d3d1", "conv3x3s3"]
    hs = sweep.histories(nets.STARTS_Q if quick else nets.STARTS_T, winst, 1)
    rule = cov.pop("rule") + "; (N) %d single-operator networks with weights (square / cubic weight shapes included) x configurations compiled from .tflite bytes and executed" % len(hs)
    unit_eval, unit_nt = cov.pop("evaluations"), cov.pop("distinct_nontrivial")
    return netrun.run(ctx, c01.oracle, "exploration", rule=rule,
                      assumptions=["reference decoder = the tree's mlw_decode.c (the property names it as the reference); hardware order = vfw/ref/traversal.py (A3)",
                                   "sanitizer build: clang -fsanitize=address,undefined -UNDEBUG, leak detection off",
                                   "net level: the functional executor decodes the programmed weight stream with the reference decoder and the traversal model; a wrong order shows as a wrong output or a stream that does not decode to the operator's volume"],
                      plan=[("weightorderxC2" if quick else "weightorderxC8", hs, "c2" if quick else "c8")], nontrivial_stat="executions", key_fn=lambda key, name: "net|" + key + "|" + (name.split(">", 1)[1].split(" @")[0] if ">" in name else name),
                      extra_cov=dict(cov, unit_evaluations=unit_eval, unit_nontrivial=unit_nt))
