"""C02 - every NPU access stays inside the region the output model declares."""
from .. import forced, netrun
from ..npu import decode as D
from ..npu import footprint as F
from ..npu import isa

DEFAULT_ARENA_CACHE = 384 * 1024


def separate_cache(cfg):
    mem = cfg.get("mem", "default")
    return mem == "Dedicated_Sram" or (mem == "default" and "u65" in cfg.get("acc", "ethos-u65-256"))


def oracle(case, rec, an, streams, mb):
    viol = []
    stats = dict(accesses=0, strided=0, region2=0, shram=0)
    cfg = case["cfg"]
    acc = cfg.get("acc", "ethos-u65-256")
    for si, s in enumerate(streams):
        n = s.npu
        if len(n["flash"]) != n["flash_size"]:
            viol.append(("flash-size-mismatch", "flash tensor shape %d but buffer of %d bytes" % (n["flash_size"], len(n["flash"]))))
        limits = {0: n["flash_size"], 1: n["scratch_size"], 2: n["fast_size"], "shram": isa.ACCELERATORS[acc]["banks"] * isa.SHRAM_BANK_BYTES}
        for oi, op in enumerate(s.ops):
            reads, writes = F.op_accesses(op, acc)
            gm = netrun.geometry_mismatch(s, oi)
            if gm:
                # one defect family (shapes re-derived by a graph rewrite after a memory-only operator was bypassed):
                # reported under its root cause, not once per resulting stray access
                stats["geometry_mismatch_ops"] = stats.get("geometry_mismatch_ops", 0) + 1
                viol.append(("inconsistent-npu-op|%s/%s" % (op.kind, op.sub), "%s %s operation is geometrically inconsistent (%s): it fetches outside its input tensor" % (op.kind, op.sub, gm)))
                reads = {k: v for k, v in reads.items() if k != D.ifm_of(op).region}
            for direction, d in (("read", reads), ("write", writes)):
                for region, iv in d.items():
                    stats["accesses"] += 1
                    if len(iv) > 1:
                        stats["strided"] += 1
                    if region == 2:
                        stats["region2"] += 1
                    if region == "shram":
                        stats["shram"] += 1
                    if region not in limits:
                        viol.append(("unknown-region|stream%d|op%d" % (si, op.index), "%s of region %s which the output file does not publish" % (direction, region)))
                        continue
                    lo, hi = F.span(iv)
                    if lo < 0 or hi > limits[region]:
                        viol.append(("out-of-region|%s|r%s|stream%d|op%d" % (direction, region, si, op.index),
                                     "%s %s op %d %ss [%d,%d) of region %s whose published extent is %d" % (op.kind, op.sub, op.index, direction, lo, hi, region, limits[region])))
                    if direction == "write" and region == 0:
                        viol.append(("write-to-constants|stream%d|op%d" % (si, op.index), "%s op %d writes [%d,%d) in the read-only constants region" % (op.kind, op.index, lo, hi)))
        if separate_cache(cfg):
            limit = cfg.get("arena") if cfg.get("arena") is not None else DEFAULT_ARENA_CACHE
            if n["fast_size"] > limit:
                viol.append(("fast-scratch-exceeds-cache", "fast scratch extent %d exceeds the configured arena cache size %d" % (n["fast_size"], limit)))
    return viol, stats


def _key(key, name):
    if key.startswith("inconsistent-npu-op"):
        return key
    # identity of any other failure: what fails + the operator sequence of the network (not its start shape / configuration)
    steps = name.split(">", 1)[1].split(" @")[0] if ">" in name else name
    return "%s|steps=%s" % (key, steps)


def replay(ctx, case):
    return netrun.replay_case(oracle, case)


def run(ctx):
    return netrun.run(
        ctx, oracle, "exploration",
        rule="every generated network x configuration is compiled; every stream is decoded from the output file and the exact strided footprint "
             "(tiles, strides, NHCWB16 bricks, per-core weight/scale ranges, LUT slot, DMA) of every operation is compared with the published region extents",
        assumptions=["IFM extent fetched by an operation is derived from OFM extent, kernel, stride, padding and upscale registers (DESIGN.md A1/A2)",
                     "effective arena cache size = --arena-cache-size if given else 393216 (CLI default)"],
        extra_cases=forced.forced_cases(ctx.tier), nontrivial_stat="strided", key_fn=_key)
