"""C14 - compilation is deterministic and independent of process history.

History space (H): BFS over sequences of compilation events (model x entry point x accelerator) executed in ONE process;
differential oracle: the bytes produced by the last event equal those of the same event executed alone from the initial
process state.  Plus: the same event in fresh interpreters under several PYTHONHASHSEED values and heap layouts."""
import hashlib
import itertools
import os
import shutil
import subprocess
import sys
import tempfile

from .. import core, isolate
from ..isolate import pmap
from ..tfl import build, nets

H = lambda start, steps: dict(start=start, steps=steps)  # noqa
I8 = ([1, 16, 16, 16], "int8")


def dup_names_model():
    m = nets.build(H(([1, 8, 8, 8], "int8"), ["conv3x3", "relu", "cpu_neg"]), 0)
    for t in m["subgraphs"][0]["tensors"]:
        t["name"] = "same"
    return m


def twin_inputs_model():
    """two graph inputs of one shape feed one ADD, and two equally shaped convolution results feed another: pairs of tensors with the same life
    time and size, whose relative placement an allocator has to decide by something"""
    net = nets.Net(0)
    a = net.act([1, 8, 8, 8], "int8", name="in_a", q=(0.02, 0))
    b = net.act([1, 8, 8, 8], "int8", name="in_b", q=(0.02, 0))
    for t in (a, b):
        net.inputs.append(t)
        net.open.append(t)
    y = net.act([1, 8, 8, 8], "int8", q=(0.04, 0))
    net.op("ADD", [a, b], [y], ("AddOptions", dict(FusedActivationFunction=0)))
    z = net.act([1, 8, 8, 8], "int8", q=(0.04, 0))
    net.op("SUB", [a, b], [z], ("SubOptions", dict(FusedActivationFunction=0)))
    o = net.act([1, 8, 8, 8], "int8", q=(0.08, 0))
    net.op("ADD", [y, z], [o], ("AddOptions", dict(FusedActivationFunction=0)))
    return net.model()


def lut_chain(scales):
    """QUANTIZE(to scale s) -> TANH for every s: one lookup table per distinct s (value-keyed constants of the process-wide memo)"""
    net = nets.Net(0)
    x = net.act([1, 4, 4, 8], "int8", name="input", q=(0.02, 0))
    net.inputs.append(x)
    net.open.append(x)
    net.cur = x
    for s in scales:
        y = net.act([1, 4, 4, 8], "int8", q=(float(s), 0))
        net.op("QUANTIZE", [net.cur], [y], ("QuantizeOptions", {}))
        z = net.act([1, 4, 4, 8], "int8", q=(1 / 128, 0))
        net.op("TANH", [y], [z], None)
    return net.model()


# cache-growth level: A_k leaves about k value-keyed constants in the process; B uses one table twice with 40 other new tables in between.
# Any bound / eviction / flush of a process-wide memo at a size T <= 290 is crossed inside B for some k of the ladder (step 32 < 40).
LUT_LADDER = list(range(24, 260, 32))
LUT_B_SCALES = [0.5] + [0.2 + 0.003 * j for j in range(40)] + [0.5]


MODELS = {
    "conv_logistic": lambda: nets.build(H(I8, ["conv3x3", "logistic"]), 0),
    "logistic": lambda: nets.build(H(I8, ["logistic"]), 0),
    "conv_nobias": lambda: nets.build(H(I8, ["conv1x1_nobias", "conv1x1_nobias"]), 0),
    "conv_nobias_c16": lambda: nets.build(H(([1, 8, 8, 16], "int8"), ["conv1x1_nobias"]), 0),
    "mean": lambda: nets.build(H(I8, ["mean"]), 0),
    "dup_names": dup_names_model,
    "cpu_mid": lambda: nets.build(H(I8, ["conv3x3", "cpu_neg", "dw3x3"]), 0),
    "hard_swish": lambda: nets.build(H(I8, ["hard_swish", "tanh"]), 0),
    "branchy": lambda: nets.build(H(([1, 16, 16, 8], "int8"), ["conv3x3", "branch_npu", "conv5x5_c24", "concat", "conv3x3", "add_res"]), 0),
    "softmax": lambda: nets.build(H(([1, 8, 8, 8], "int8"), ["softmax"]), 0),
    # two third-party custom operators with different custom codes (the operator-code table has two entries of one operator type) next to an NPU part
    # PAD of the batch and the channel dimension: the only rewrite that edits a constant read from the file in place
    "pad_nc": lambda: nets.build(H(([1, 4, 4, 6], "int8"), ["pad_nc"]), 0),
    "twin_inputs": twin_inputs_model,
    "two_customs": lambda: nets.build(H(([1, 8, 8, 8], "int8"), ["cpu_custom", "cpu_custom_opt", "conv3x3"]), 0),
    # two networks whose first heuristic allocation is not optimal: the hill-climb search (random swaps) really runs
    "hc_search_a": lambda: nets.build(H(([1, 16, 16, 8], "int8"), ["concat", "conv5x5_c24", "conv5x5_c24"]), 0),
    # a network whose schedule depends on the arena cache size (used with two --config files that disagree on it)
    "cache_sensitive": lambda: nets.build(H(([1, 32, 32, 16], "int8"), ["conv3x3", "conv3x3", "conv3x3"]), 0),
    "hc_search_b": lambda: nets.build(H(([1, 16, 16, 8], "int8"), ["conv3x3", "add_res", "conv3x3v_relu6", "conv3x3v_relu6"]), 0),
}
GROWTH_MODELS = {"lut_b": lambda: lut_chain(LUT_B_SCALES)}
for _k in LUT_LADDER:
    GROWTH_MODELS["lut_a%d" % _k] = (lambda k: (lambda: lut_chain([0.011 + 0.0007 * i for i in range(k)])))(_k)
TWO_CFG = """[System_Config.My_Sys]
core_clock=500e6
axi0_port=Sram
axi1_port=OffChipFlash
Sram_clock_scale=1.0
Sram_burst_length=32
Sram_read_latency=32
Sram_write_latency=32
OffChipFlash_clock_scale=0.125
OffChipFlash_burst_length=128
OffChipFlash_read_latency=64
OffChipFlash_write_latency=64
[Memory_Mode.My_Mem]
const_mem_area=Axi1
arena_mem_area=Axi0
cache_mem_area=Axi0
arena_cache_size=%d
"""
ENTRIES = [("main", "ethos-u65-256"), ("main", "ethos-u55-128"), ("main", "ethos-u65-512"), ("convert", None), ("convert_bytes", None)]

_model_bytes = {}


def model_bytes(name):
    if name not in _model_bytes:
        _model_bytes[name] = build.serialise((MODELS.get(name) or GROWTH_MODELS[name])())
    return _model_bytes[name]


def run_event(ev, workdir):
    """returns (kind, payload): ('ok', bytes + summary) or ('exc', description)."""
    from ethosu.vela import vela

    name, entry, acc = ev
    mb = model_bytes(name)
    d = tempfile.mkdtemp(prefix="ev-", dir=workdir)
    src = os.path.join(d, "net.tflite")
    open(src, "wb").write(mb)
    os.chdir(d)
    try:
        if entry in ("main", "main2cfg", "main_greedy", "main_linear"):
            args = [src, "--output-dir", os.path.join(d, "out"), "--accelerator-config", acc]
            if entry == "main_greedy":
                args += ["--tensor-allocator", "Greedy"]
            if entry == "main_linear":
                args += ["--tensor-allocator", "LinearAlloc"]
            if entry == "main2cfg":
                # two configuration files that disagree on one key (documented: --config may be given several times)
                os.makedirs(os.path.join(d, "cfg", "sub"))
                a, b = os.path.join(d, "cfg", "sub", "base.ini"), os.path.join(d, "cfg", "sub", "board.ini")
                open(a, "w").write(TWO_CFG % 2097152)
                open(b, "w").write("[Memory_Mode.My_Mem]\narena_cache_size=24576\n")
                args += ["--config", a, "--config", b, "--system-config", "My_Sys", "--memory-mode", "My_Mem"]
            st = vela.main(args)
            if st != 0:
                return ("status", st)
            out = open(os.path.join(d, "out", "net_vela.tflite"), "rb").read()
            summ = b""
            for fn in sorted(os.listdir(os.path.join(d, "out"))):
                if "_summary_" in fn:
                    # drop the columns that hold file paths / timings
                    import csv

                    rows = list(csv.DictReader(open(os.path.join(d, "out", fn))))
                    summ = repr(sorted((k, v) for k, v in rows[0].items() if k not in ("network",) and "time" not in k)).encode()
            return ("ok", out, summ)
        if entry == "convert":
            fn = vela.convert(src)
            return ("ok", open(fn, "rb").read(), b"")
        if entry == "convert_bytes":
            buf = bytearray(mb)
            res = bytes(vela.convert_bytes(buf))
            if bytes(buf) != bytes(mb):
                # the caller's model bytes are an input, not scratch space: a second conversion of the same buffer would see another model
                k = next(i for i in range(len(mb)) if buf[i] != mb[i])
                return ("input-mutated", "convert_bytes changed the caller's buffer (first difference at byte %d)" % k)
            return ("ok", res, b"")
    except SystemExit as e:
        return ("exit", e.code)
    except BaseException as e:  # noqa
        import traceback

        from .. import sweep

        return ("exc", type(e).__name__, sweep.crash_site(traceback.format_exc()), str(e)[:120])
    finally:
        os.chdir("/")
    return ("?",)


def _history_child(history):
    core.bind_repo()
    from ethosu.vela import hillclimb_allocation as hc

    searches = [0]
    orig = hc.HillClimbAllocator.search

    def counting(self, indices):
        searches[0] += 1
        return orig(self, indices)

    hc.HillClimbAllocator.search = counting
    wd = tempfile.mkdtemp(prefix="vfw-c14-")
    try:
        res = None
        for ev in history:
            res = run_event(tuple(ev), wd)
        if res[0] == "ok":
            return ("ok", hashlib.sha256(res[1]).hexdigest(), hashlib.sha256(res[2]).hexdigest(), len(res[1]), searches[0])
        return res
    finally:
        shutil.rmtree(wd, ignore_errors=True)


def _alloc_rng_shard(args):
    """hill-climb allocator on every 2-range set (first range fixed) of C05's lattice: where the search runs long enough to reach its
    'stuck' perturbation, the result must not depend on the state of the process-wide random generator"""
    first, items = args
    from . import c05

    core.bind_repo(need_codec=False)
    bad = []
    n = long_runs = 0
    for second in items:
        specs = (first, second)
        base = c05.run_allocator("hill", specs)
        if "error" in base:
            continue
        n += 1
        if base.get("iters", 0) <= 52:
            continue
        long_runs += 1
        for perturb in (1, 987654321):
            r = c05.run_allocator("hill", specs, rng_perturb=perturb)
            if r.get("addrs") != base["addrs"] or r.get("total") != base["total"]:
                bad.append((specs, perturb, base.get("addrs"), r.get("addrs")))
                break
    return n, long_runs, bad


def _shard(histories):
    core.bind_repo()
    out = []
    for h in histories:
        res, text = isolate.run_forked(_history_child, (h,), timeout=300)
        out.append((h, res[1] if res[0] == "ok" else ("harness", res[:3])))
    return out


FRESH = r"""
import sys, os, hashlib
junk = [bytearray(37 * (i + 1)) for i in range(int(os.environ.get("VFW_JUNK", "0")))]
sys.path.insert(0, %(verif)r)
from vfw.props import c14
from vfw import core
import json
ev = json.loads(sys.argv[1])
r = c14._history_child([ev])
print("RESULT " + json.dumps(r))
"""


def fresh_interpreter(ev, hashseed, junk):
    import json

    env = dict(os.environ, PYTHONHASHSEED=str(hashseed), VFW_JUNK=str(junk), PYTHONDONTWRITEBYTECODE="1")
    r = subprocess.run(["/venv/bin/python", "-c", FRESH % dict(verif=core.VERIF), json.dumps(list(ev))], capture_output=True, text=True, env=env, timeout=300)
    for line in r.stdout.splitlines():
        if line.startswith("RESULT "):
            return tuple(json.loads(line[7:]))
    return ("harness", r.returncode, r.stderr[-300:])


def _fresh_shard(args):
    ev, seeds = args
    return ev, [(hs, junk, fresh_interpreter(ev, hs, junk)) for hs, junk in seeds]


def describe(res):
    if res[0] == "ok":
        return "output sha %s.. (%d bytes)" % (res[1][:12], res[3])
    return str(res)


def replay(ctx, case):
    if case.get("alloc"):
        n, lr, bad = _alloc_rng_shard((tuple(case["alloc"][0]), [tuple(case["alloc"][1])]))
        return ["allocation differs: %s vs %s" % (b[2], b[3]) for b in bad]
    core.bind_repo()
    if case.get("fresh"):
        ev = tuple(case["ev"])
        base = _shard([[list(ev)]])[0][1]
        r = fresh_interpreter(ev, case["hashseed"], case["junk"])
        return [] if tuple(r) == tuple(base) else ["fresh interpreter (PYTHONHASHSEED=%s, heap perturbation %s): %s; reference: %s" % (case["hashseed"], case["junk"], describe(r), describe(base))]
    hist = [list(e) for e in case["history"]]
    alone = _shard([[hist[-1]]])[0][1]
    got = _shard([hist])[0][1]
    return [] if tuple(got) == tuple(alone) else ["after %s: %s; alone: %s" % (hist[:-1], describe(got), describe(alone))]


def run(ctx):
    core.bind_repo()
    quick = ctx.tier == "quick"
    models = list(MODELS)
    events = [(m, e, a) for m in models for (e, a) in ENTRIES] + [("cache_sensitive", "main2cfg", "ethos-u55-128"), ("conv_logistic", "main2cfg", "ethos-u55-128")] + [
        (m, e, "ethos-u55-128") for m in ("twin_inputs", "branchy") for e in ("main_greedy", "main_linear")]
    # reference: every event alone
    alone = {}
    for out in pmap(_shard, [[[list(ev)]] for ev in events], chunksize=4):
        for h, r in out:
            alone[tuple(h[0])] = tuple(r) if isinstance(r, (list, tuple)) else r
    n_alone_ok = sum(1 for r in alone.values() if r[0] == "ok")
    ctx.count("events_entering_hillclimb_search", sum(1 for r in alone.values() if r[0] == "ok" and r[4] > 0))
    ctx.count("events", len(events))
    ctx.count("events_compiling_alone", n_alone_ok)
    for ev, r in alone.items():
        if r[0] != "ok":
            ctx.violation("alone|%s|%s" % ("/".join(map(str, ev)), r[:3]), "event %s fails on its own: %s" % (ev, describe(r)), dict(history=[list(ev)]))
    # entry points agree byte for byte (main with default options on u65-256 == convert == convert_bytes)
    for m in models:
        rs = {e: alone.get((m, e, a)) for (e, a) in (("main", "ethos-u65-256"), ("convert", None), ("convert_bytes", None))}
        oks = {e: r for e, r in rs.items() if r and r[0] == "ok"}
        if len({r[1] for r in oks.values()}) > 1:
            ctx.violation("entry-points-differ|%s" % m, "model %s: %s" % (m, {e: describe(r) for e, r in rs.items()}), dict(history=[[m, "convert_bytes", None]]))
    # depth-2 histories (all), depth-3 (thorough: all prefixes of length 2 x last events of a reduced set)
    hists = [[list(a), list(b)] for a in events for b in events]
    if not quick:
        last = [ev for ev in events if ev[1] in ("main", "convert_bytes") and ev[2] in ("ethos-u65-256", None)]
        hists += [[list(a), list(b), list(c)] for a in events for b in events for c in last if a[0] != b[0]]
    ctx.count("histories", len(hists))
    states = set()
    transitions = 0
    chunks = [hists[i:i + 8] for i in range(0, len(hists), 8)]
    for out in pmap(_shard, chunks):
        for h, r in out:
            transitions += len(h)
            r = tuple(r) if isinstance(r, (list, tuple)) else r
            states.add((tuple(map(tuple, h[:-1])), r[:3] if r[0] == "ok" else r[:3]))
            ref = alone[tuple(h[-1])]
            if ref[0] != "ok":
                continue
            if r[:3] != ref[:3]:
                # identity: the (previous event kind, last event) pair and the symptom
                prev = h[-2]
                symptom = "%s@%s" % (r[1], r[2]) if r[0] == "exc" else ("different-bytes" if r[0] == "ok" else str(r[0]))
                key = "history|%s|prev=%s/%s|last=%s/%s" % (symptom, prev[0], prev[1], h[-1][0], h[-1][1])
                ctx.violation(key, "after %s, event %s gives %s; alone it gives %s" % (h[:-1], h[-1], describe(r), describe(ref)), dict(history=h))
    # cache-growth level: a process-wide memo that is bounded / flushed at some size must not change what a later compilation produces
    g_last = [("lut_b", "main", "ethos-u65-256"), ("lut_b", "convert_bytes", None)]
    g_alone = {}
    for out in pmap(_shard, [[[list(ev)]] for ev in g_last]):
        for h, r in out:
            g_alone[tuple(h[0])] = tuple(r)
    g_hists = [[["lut_a%d" % k, e, a], list(last)] for k in LUT_LADDER for last in g_last for (e, a) in (("main", "ethos-u65-256"),)]
    if not quick:
        g_hists += [[["lut_a%d" % k1, "main", "ethos-u55-128"], ["lut_a%d" % k2, "convert_bytes", None], list(last)] for k1 in LUT_LADDER[:4] for k2 in LUT_LADDER[:4] for last in g_last]
    for out in pmap(_shard, [[h] for h in g_hists]):
        for h, r in out:
            transitions += len(h)
            r = tuple(r) if isinstance(r, (list, tuple)) else r
            ref = g_alone[tuple(h[-1])]
            ctx.count("growth_histories", 1)
            if ref[0] != "ok":
                ctx.violation("alone|%s" % "/".join(map(str, h[-1])), "event %s fails on its own: %s" % (h[-1], describe(ref)), dict(history=[h[-1]]))
            elif r[:3] != ref[:3]:
                ctx.violation("history|growth|last=%s/%s" % (h[-1][0], h[-1][1]), "after %s, event %s gives %s; alone it gives %s" % (h[:-1], h[-1], describe(r), describe(ref)), dict(history=h))
    # allocator level: the random search of the hill-climb allocator under different states of the global generator
    from . import c05

    items, _ = c05.lattice("quick")
    for n, long_runs, bad in pmap(_alloc_rng_shard, [(it, items) for it in items]):
        ctx.count("allocator_sets", n)
        ctx.count("allocator_sets_with_long_search", long_runs)
        for specs, perturb, a, b in bad:
            ctx.violation("allocator-rng|%s" % (specs,), "hill-climb allocation of %s depends on the state of the global random generator: %s vs %s (generator perturbed with seed %s before the call)" % (
                specs, a, b, perturb), dict(alloc=[list(x) for x in specs]))
    # fresh interpreters: hash seeds and heap layouts
    seeds = [(0, 0), (1, 0), (2, 37), (7, 0)] if quick else [(s, j) for s in range(8) for j in (0, 37)]
    fresh_events = [ev for ev in events if ev[1] == "main" and ev[2] == "ethos-u65-256"] + [(m, "convert_bytes", None) for m in ("dup_names", "branchy", "two_customs")] + \
        [ev for ev in events if ev[1] in ("main2cfg", "main_greedy", "main_linear")]
    if quick:
        seeds = seeds + [(3, 0), (8, 0)]
    nfresh = 0
    for ev, results in pmap(_fresh_shard, [(ev, seeds) for ev in fresh_events]):
        ref = alone[tuple(ev)]
        for hs, junk, r in results:
            nfresh += 1
            r = tuple(r)
            if ref[0] == "ok" and r[:3] != ref[:3]:
                ctx.violation("fresh|%s|%s" % (ev[0], "heap" if junk else "hashseed"), "event %s in a fresh interpreter with PYTHONHASHSEED=%d, heap perturbation %d: %s; reference %s" % (
                    ev, hs, junk, describe(r), describe(ref)), dict(fresh=True, ev=list(ev), hashseed=hs, junk=junk))
    ctx.count("fresh_interpreter_runs", nfresh)
    if n_alone_ok == 0:
        ctx.inconclusive = "no event compiles on its own"
    elif ctx.counters.get("events_entering_hillclimb_search", 0) == 0:
        ctx.inconclusive = "no event enters the hill-climb search: the RNG-history axis would be vacuous"
    cov = dict(
        states=len(states) + len(alone),
        transitions=transitions + len(alone),
        traces_validated_against_impl=len(hists) + len(alone) + nfresh,
        samples=[hists[7], dict(fresh=list(fresh_events[0]), seeds=seeds)],
        exhaustive=True,
        rule="%d events (model x entry point x accelerator); every history of length 2%s executed in one process and compared with its last event alone; "
             "%d fresh-interpreter runs over PYTHONHASHSEED / heap layouts" % (len(events), "" if quick else " and length 3 (distinct models, reduced last-event set)", nfresh),
        bound="history depth %d" % (2 if quick else 3),
        evaluations=len(hists) + nfresh, distinct_nontrivial=len(hists),
    )
    return ctx.finish("model_checking", cov, ["'fresh process' = forked child of a worker that has imported Vela but never compiled; fresh interpreters are used for the hash-seed / heap axis",
                                             "summary figures = summary CSV without file-name and timing columns"])
