"""C05 - allocators never overlap live buffers and report their true footprint.

Space (I): every ORDERED sequence of <= N live ranges (start<=end over T steps, size in S, alignment in A),
driven through the three allocators' real entry points; brute-force O(n^2) oracle (ref/alloc.py)."""
import itertools
import random

from .. import core
from ..isolate import pmap
from ..ref import alloc as ref


def lattice(tier):
    if tier == "quick":
        T, S, A, N = 4, (16, 48, 112), (16, 64), 3
    else:
        T, S, A, N = 4, (16, 48, 112), (16, 32, 64), 3
    iv = [(s, e) for s in range(T) for e in range(s, T)]
    items = [(s, e, sz, al) for (s, e) in iv for sz in S for al in A]
    return items, N


def lattice4(tier):
    # depth-4 level (a hole left by a dead range between two live ones needs 4 ranges) on a 3-step lattice
    T, S, A = (3, (16, 48, 64, 112), (16, 64)) if tier == "quick" else (3, (16, 48, 64, 112), (16, 64))
    iv = [(s, e) for s in range(T) for e in range(s, T)]
    return [(s, e, sz, al) for (s, e) in iv for sz in S for al in A]


def lattice_huge(tier):
    # buffers around 4 GiB: sizes, end addresses and totals that do not fit 32 bits (n <= 3 over a 2-step lattice)
    T, A = 2, (16, 64)
    S = (48, (1 << 32) - 16, (1 << 32) + 48) if tier == "quick" else (48, (1 << 31) + 16, (1 << 32) - 16, (1 << 32) + 48, (1 << 33))
    iv = [(s, e) for s in range(T) for e in range(s, T)]
    return [(s, e, sz, al) for (s, e) in iv for sz in S for al in A]


def _shard_huge_g(args):
    """guarded: an allocator that does not return on such a set must become a finding, not a hung check"""
    from .. import isolate

    res, _ = isolate.run_forked(_shard, (args,), timeout=60, capture=False)
    if res[0] == "ok":
        return res[1]
    first, items, n, tier = args
    return dict(sets=0, sets_with_live_overlap=0), [((first,), "any", {}, ["allocator-did-not-return:%s" % res[0]], dict(error="shard with first range %s, n=%d did not finish: %s" % (first, n, res[:2])))], 1


_mods = None


def _vela():
    global _mods
    if _mods is None:
        core.bind_repo(need_codec=False)
        from ethosu.vela import greedy_allocation as ga, hillclimb_allocation as hc, tensor_allocation as ta
        from ethosu.vela.live_range import LiveRange, LiveRangeGraph
        from ethosu.vela.tensor import Tensor, TensorAddressMap
        from ethosu.vela.data_type import DataType
        from ethosu.vela.errors import AllocationError

        _mods = dict(ga=ga, hc=hc, ta=ta, LiveRange=LiveRange, LiveRangeGraph=LiveRangeGraph, Tensor=Tensor,
                     TAM=TensorAddressMap, DataType=DataType, AllocationError=AllocationError)
    return _mods


def mk_graph(specs, equiv=(), dups=(), api=None):
    """equiv: indices whose live range carries a second, equivalent tensor (clone);
    dups: pairs (i, j) declared duplicate constants (LinearAlloc rule)."""
    m = _vela()
    m["TAM"].clear_address_map()
    g = m["LiveRangeGraph"]()
    tens = []
    for i, (s, e, sz, al) in enumerate(specs):
        t = m["Tensor"]([sz], m["DataType"].uint8, "t%d" % i)
        t.alignment = 1
        if api is None:
            lr = m["LiveRange"](t, al)
            g.lrs.append(lr)
            g.ranges[t] = lr
        else:
            # the range is registered through the graph API, as the compiler does: a first request and a later one with another
            # alignment for the same tensor ("up": 16 then al, "down": al then 16) or for an equivalent clone ("clone")
            first, second = (al, 16) if api == "down" else (min(16, al), al)
            lr = g.get_or_create_range(t, first)
            other = t.clone("_rq") if api == "clone" else t
            lr2 = g.get_or_create_range(other, second)
            if lr2 is not lr:
                raise core.HarnessError("second request created a new range")
        lr.start_time, lr.end_time, lr.size = s, e, sz
        tens.append([t])
        if i in equiv:
            c = t.clone("_eq")
            lr.add_tensor(c)
            g.ranges[c] = lr
            tens[-1].append(c)
    for k, (i, j) in enumerate(dups):
        # duplicate constants are NpuWeightTensors in the real pipeline (the only class carrying both configs)
        from ethosu.vela.weight_compressor import NpuWeightTensor

        for x in (i, j):
            old = tens[x][0]
            t = NpuWeightTensor("w%d" % x)
            t.shape = t.storage_shape = t.bandwidth_shape = [specs[x][2]]
            t.alignment = 1
            t.weight_compression_config = ("dup", k)
            t.scale_compression_config = ("dup", k)
            lr = g.ranges.pop(old)
            lr.tensors[0] = t
            g.ranges = {(t if kk is old else kk): v for kk, v in g.ranges.items()}
            new = {}
            for idx, l in enumerate(g.lrs):
                for tt in l.tensors:
                    new[tt] = l
            g.ranges = new
            tens[x][0] = t
    return g, tens


def run_allocator(name, specs, equiv=(), dups=(), max_iter=None, mem_limit=1 << 40, rng_perturb=None, api=None):
    """Returns dict(addrs=[[addr per tensor] per range], total=int, iters=int) or dict(error=...)."""
    m = _vela()
    g, tens = mk_graph(specs, equiv, dups, api)
    maxal = max(al for *_, al in specs)
    iters = [0]
    try:
        if name == "greedy":
            total = m["ga"].allocate_live_ranges(g, maxal)
        elif name == "linear":
            total = m["ta"].linear_allocate_live_ranges(g, maxal)
        elif name == "hill":
            H = m["hc"].HillClimbAllocator
            orig = H.allocate_indices

            def counting(self, indices):
                iters[0] += 1
                if iters[0] > (max_iter if max_iter is not None else H.MAX_ITERATIONS) + 505:
                    raise core.HarnessError("iteration bound exceeded")
                return orig(self, indices)

            H.allocate_indices = counting
            try:
                if rng_perturb is not None:
                    random.seed(rng_perturb)
                    random.random()
                total = m["ta"].hillclimb_allocate_live_ranges(g, 1, max_iter, mem_limit)
            finally:
                H.allocate_indices = orig
        else:
            raise ValueError(name)
    except core.HarnessError:
        return dict(error="HillClimb exceeded max_iterations + 500 iterations")
    except Exception as e:  # AllocationError from the allocator's own verify step is a failure too
        return dict(error="%s: %s" % (type(e).__name__, str(e)[:200]))
    return dict(addrs=[[t.address for t in ts] for ts in tens], total=total, iters=iters[0])


def judge(name, specs, res, equiv=(), dups=(), mem_limit=None):
    if "error" in res:
        return ["error:" + res["error"]]
    tags = ref.check_allocation(specs, res["addrs"], res["total"], dups=dups if name == "linear" else (),
                                ignore_liveness=False)
    if name == "hill":
        peak = ref.peak_live(specs)
        if res["total"] < peak:
            tags.append("below_peak")
    return tags


VARIANTS_Q = [("greedy", {}), ("linear", {}), ("hill", {})]


def _eval(specs, tier, stats):
    """All allocator variants on one ordered set. Returns list of (variant-name, kwargs, tags)."""
    bad = []
    n = len(specs)
    variants = [("greedy", {})] if tier == "depth4" else [("greedy", {}), ("linear", {}), ("hill", {})]
    if tier == "thorough" and n >= 2:
        peak = ref.peak_live(specs)
        variants += [("hill", dict(max_iter=0)), ("hill", dict(max_iter=1, mem_limit=peak)), ("hill", dict(max_iter=10, mem_limit=max(peak - 16, 0)))]
    if tier != "depth4" and (n == 2 or (n >= 2 and tier == "thorough")):
        # an iteration limit of zero with a memory limit that cannot be met: the search may only run its 500-iteration grace
        peak0 = ref.peak_live(specs)
        variants += [("hill", dict(max_iter=0, mem_limit=max(peak0 - 16, 0))), ("hill", dict(max_iter=3, mem_limit=0))]
    # equivalence / duplicates: first range carries an equivalent clone; first two declared duplicate constants if same size
    if n == 2 or (n >= 2 and tier == "thorough"):
        variants += [("greedy", dict(equiv=(0,))), ("hill", dict(equiv=(n - 1,))), ("linear", dict(equiv=(0,)))]
        if specs[0][2] == specs[1][2]:
            variants.append(("linear", dict(dups=((0, 1),))))
    if n <= 2 or tier == "thorough":
        variants += [("greedy", dict(api="up")), ("hill", dict(api="up")), ("greedy", dict(api="clone")), ("hill", dict(api="down")), ("linear", dict(api="up"))]
    for name, kw in variants:
        res = run_allocator(name, specs, **kw)
        stats["calls"] = stats.get("calls", 0) + 1
        tags = judge(name, specs, res, **{k: v for k, v in kw.items() if k in ("equiv", "dups")})
        if name == "hill" and "iters" in res:
            if res["iters"] > 1:
                stats["hill_search_entered"] = stats.get("hill_search_entered", 0) + 1
                # result must not depend on the RNG state left by earlier calls
                res2 = run_allocator(name, specs, rng_perturb=987654321, **kw)
                if res2.get("addrs") != res["addrs"]:
                    tags.append("rng_history_dependent")
        if tags:
            bad.append((name, kw, sorted(set(tags)), res))
    return bad


def _shard(args):
    first, items, n, tier = args
    stats = {}
    out = []
    cnt = 0
    nontrivial = 0
    prefix = first if isinstance(first[0], tuple) else (first,)
    for rest in itertools.product(items, repeat=n - len(prefix)):
        specs = prefix + rest
        cnt += 1
        if n >= 2 and ref.has_live_overlap(specs):
            nontrivial += 1
        for name, kw, tags, res in _eval(specs, tier, stats):
            out.append((specs, name, kw, tags, res))
    stats["sets"] = cnt
    stats["sets_with_live_overlap"] = nontrivial
    return stats, out[:50], len(out)


def replay(ctx, case):
    specs = tuple(tuple(s) for s in case["specs"])
    kw = {k: (tuple(tuple(x) if isinstance(x, list) else x for x in v) if isinstance(v, list) else v) for k, v in case.get("kw", {}).items()}
    res = run_allocator(case["allocator"], specs, **kw)
    tags = judge(case["allocator"], specs, res, **{k: v for k, v in kw.items() if k in ("equiv", "dups")})
    return ["%s %s -> %s %s" % (case["allocator"], specs, tags, res)] if tags else []


def run(ctx):
    items, N = lattice(ctx.tier)
    shards = []
    for n in range(1, N + 1):
        for first in items:
            shards.append((first, items, n, ctx.tier))
    items4 = lattice4(ctx.tier)
    if items4:
        for first in items4:
            for second in items4:
                shards.append(((first, second), items4, 4, "depth4" if ctx.tier == "quick" else "quick"))  # base variants only at depth 4
    # order shards by seed (changes scheduling only, never the space)
    rnd = random.Random(ctx.seed)
    rnd.shuffle(shards)
    total_bad = 0
    items_h = lattice_huge(ctx.tier)
    hshards = [(first, items_h, n, "quick") for n in (1, 2, 3) for first in items_h]
    for stats, bad, nbad in pmap(_shard_huge_g, hshards):
        ctx.merge_counters({"huge_" + k: v for k, v in stats.items()})
        total_bad += nbad
        for specs, name, kw, tags, res in bad:
            key = "huge|%s|%s|%s|%s" % (name, sorted(kw.items()), "+".join(tags), specs)
            ctx.violation(key, "allocator %s on %s: %s (result %s)" % (name, specs, tags, res), dict(allocator=name, specs=specs, kw=kw))
    for stats, bad, nbad in pmap(_shard, shards):
        ctx.merge_counters(stats)
        total_bad += nbad
        for specs, name, kw, tags, res in bad:
            key = "%s|%s|%s|%s" % (name, sorted(kw.items()), "+".join(tags), specs)
            ctx.violation(key, "allocator %s on %s: %s (result %s)" % (name, specs, tags, res),
                          dict(allocator=name, specs=specs, kw=kw))
    c = ctx.counters
    if c.get("hill_search_entered", 0) == 0 or c.get("sets_with_live_overlap", 0) == 0:
        ctx.inconclusive = "no set entered the hill-climb search / no live overlap: sweep would be vacuous"
    sample = ((0, 2, 48, 16), (1, 3, 112, 64), (2, 2, 16, 16))
    cov = dict(
        evaluations=c.get("calls", 0),
        distinct_nontrivial=c.get("sets_with_live_overlap", 0),
        rule="all ordered sequences of n<=%d live ranges over the item lattice (%d items: (start,end,size,align)); "
             "non-trivial = at least two ranges alive at a common step; each set through greedy, linear, hillclimb "
             "(+ equivalence / duplicate-constant / iteration-limit / memory-limit variants)" % (N, len(items)),
        samples=[dict(specs=sample, greedy=run_allocator("greedy", sample), hill=run_allocator("hill", sample))],
        exhaustive=True,
        bound="n<=%d over %d items complete; n=4 over %d items complete (%s); n<=3 over %d items with sizes around 2^32 complete (%d sets)" % (
            N, len(items), len(items4), "Greedy (LinearAlloc ignores liveness)" if ctx.tier == "quick" else "all three, base variants", len(items_h), c.get("huge_sets", 0)),
        states=c.get("sets", 0),
    )
    return ctx.finish("exploration", cov, [
        "'reported total equals the highest end address' is read as hi <= total <= round_up(hi, alignment) (DESIGN.md C05)",
        "live at a common step = inclusive [start,end] intersection (the allocators' own definition)"])
