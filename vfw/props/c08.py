"""C08 - encoded weight and scale tensors cover each output channel exactly once.

(I) the real weight_compressor.encode_weight_and_scale_tensor on synthetic operators over a lattice of (operator kind, OFM
    depth, block depth, depth-slice list, core count, IFM type, per-tensor / per-channel scales, weight zero point) judged
    by an independent record/range/stream oracle;
(H) the process-wide compression cache: BFS over sequences of encode requests that collide on the cache key, each result
    compared with the one a cache-cold process returns for the same request."""
import itertools

import numpy as np

from .. import core, isolate
from ..isolate import pmap
from ..npu import isa
from ..ref import quant as Q
from ..ref import traversal as T

ACCS = {"ethos-u55-128": 1, "ethos-u65-512": 2}


def slice_lists(depth):
    cuts = [c for c in range(16, depth, 16)]
    out = []
    for r in range(len(cuts) + 1):
        for comb in itertools.combinations(cuts, r):
            out.append([0] + list(comb) + [depth])
    return out


def requests(tier):
    depths = [1, 8, 17, 40] if tier == "quick" else [1, 8, 16, 17, 40, 64]
    reqs = []
    for kind in ("conv", "depthwise", "fc"):
        for depth in depths:
            for blk in (8, 16, 32):
                for sl in slice_lists(depth):
                    for acc in ACCS:
                        for dt in ("int8", "uint8", "int16"):
                            for per_channel in ((False, True) if dt != "uint8" else (False,)):
                                reqs.append(dict(kind=kind, depth=depth, blk=blk, slices=sl, acc=acc, dt=dt, per_channel=per_channel, wzp=3 if dt == "uint8" else 0,
                                                 k=(1, 1) if kind == "fc" else ((3, 3) if depth != 17 else (2, 5)), ic=8 if kind != "fc" else 24, dil=(1, 1), wseed=0, bseed=0))
    # a 1x1 convolution on a 1x1 input is rewritten to FULLY_CONNECTED by the graph optimiser: it keeps the scale derivation of
    # the operator it came from (double product for int8/int16 convolutions)
    for depth in (8, 17):
        for acc in ACCS:
            for dt in ("int8", "uint8", "int16"):
                for per_channel in ((False, True) if dt != "uint8" else (False,)):
                    reqs.append(dict(kind="fc", as_conv=True, depth=depth, blk=16, slices=slice_lists(depth)[0], acc=acc, dt=dt, per_channel=per_channel, wzp=3 if dt == "uint8" else 0,
                                     k=(1, 1), ic=24, dil=(1, 1), wseed=0, bseed=0))
    # hardware dilation that differs between the axes, with kernels longer than one sub-kernel (4 taps at dilation 2) in either axis
    for kind in ("conv", "depthwise"):
        for dil in ((2, 1), (1, 2), (2, 2)):
            for k in ((5, 5), (1, 7), (6, 2), (2, 6)):
                for acc in ACCS:
                    reqs.append(dict(kind=kind, depth=17, blk=16, slices=slice_lists(17)[0], acc=acc, dt="int8", per_channel=False, wzp=0, k=k, ic=8, dil=dil, wseed=0, bseed=0))
    # int16 activations with an int32 bias (legal in TFLite): 32-bit accumulators, so the full-precision multiplier applies
    for kind in ("conv", "depthwise", "fc"):
        for depth in (8, 17):
            for acc in ACCS:
                for per_channel in (False, True):
                    reqs.append(dict(kind=kind, depth=depth, blk=16, slices=slice_lists(depth)[0], acc=acc, dt="int16", bias32=True, per_channel=per_channel, wzp=0,
                                     k=(1, 1) if kind == "fc" else (3, 3), ic=8 if kind != "fc" else 24, dil=(1, 1), wseed=0, bseed=0))
    # TRANSPOSE_CONV (Conv2DBackpropInputSwitchedBias): the kernel is mirrored in both spatial axes before encoding - for every depth slice,
    # with kernels that are not their own mirror image
    for depth in (17, 40):
        for sl in slice_lists(depth):
            for acc in ACCS:
                for k in ((3, 3), (2, 4)):
                    reqs.append(dict(kind="conv", tconv=True, depth=depth, blk=16, slices=sl, acc=acc, dt="int8", per_channel=False, wzp=0, k=k, ic=8, dil=(1, 1), wseed=0, bseed=0))
    # rounding ties: every channel's multiplier is exactly k + 0.5 before rounding (int8/int16: the double-product derivation)
    for kind in ("conv", "depthwise"):
        for acc in ACCS:
            for dt in ("int8", "int16"):
                reqs.append(dict(kind=kind, depth=40, blk=16, slices=slice_lists(40)[0], acc=acc, dt=dt, per_channel=True, wzp=0, ties=True,
                                 k=(3, 3), ic=8, dil=(1, 1), wseed=0, bseed=0))
    return reqs


def _scales(req, ch):
    """(ifm scale, weight scale of channel ch, ofm scale) as float32.  With req['ties'] the exact product has 32 significant bits ending
    in ...1: the 31-bit multiplier is a rounding tie in every channel (k + 0.5 with k of both parities)"""
    if req.get("ties"):
        return np.float32(65537 * 2.0 ** -24), np.float32((32769 + 2 * ch) * 2.0 ** -22), np.float32(2.0 ** -6)
    return np.float32(0.0235), (np.float32(0.004 + 0.0007 * (ch % 5)) if req["per_channel"] else np.float32(0.005)), np.float32(0.0471)


class _Blk:
    def __init__(self, d):
        self.ofm_block = type("B", (), {"depth": d})()


def make_op(req, shared=None):
    """Vela operation with weights/bias tensors for a request.  `shared` lets several requests reuse one weight tensor object."""
    from ethosu.vela.data_type import DataType
    from ethosu.vela.operation import Kernel, Op, Operation
    from ethosu.vela.tensor import QuantizationParameters, Tensor, create_const_tensor

    dts = {"int8": DataType.int8, "uint8": DataType.uint8, "int16": DataType.int16}
    kind, depth = req["kind"], req["depth"]
    kh, kw = req["k"]
    ic = req["ic"]
    rng = np.random.default_rng(1000 + req["wseed"])
    wdt = "uint8" if req["dt"] == "uint8" else "int8"
    if kind == "depthwise":
        wshape = [kh, kw, 1, depth]
    elif kind == "fc":
        wshape = [ic, depth]
    else:
        wshape = [kh, kw, ic, depth]
    lo, hi = (0, 255) if wdt == "uint8" else (-127, 127)
    key = ("w", tuple(wshape), wdt, req["wseed"], req["per_channel"], req["wzp"], bool(req.get("ties")))
    if shared is not None and key in shared:
        wt = shared[key]
    else:
        wvals = rng.integers(lo, hi + 1, size=wshape)
        wq = QuantizationParameters()
        if req["per_channel"]:
            wq.scale_f32 = np.asarray([_scales(req, i)[1] for i in range(depth)], dtype=np.float32)
            wq.zero_point = np.zeros(depth, dtype=np.int64)
        else:
            wq.scale_f32 = _scales(req, 0)[1]
            wq.zero_point = req["wzp"]
        wt = create_const_tensor("w", wshape, dts[wdt], wvals.tolist() if False else wvals, quantization=wq)
        wt.values = wvals.astype(wt.dtype.as_numpy_type())
        if shared is not None:
            shared[key] = wt
    brng = np.random.default_rng(2000 + req["bseed"])
    bdt = DataType.int64 if (req["dt"] == "int16" and not req.get("bias32")) else DataType.int32
    bvals = brng.integers(-20000, 20001, size=[depth])
    bkey = ("b", depth, req["bseed"], req["dt"], bool(req.get("bias32")))
    if shared is not None and bkey in shared:
        # several operators naming one bias constant: the reader gives each its own clone, which keeps the identity of the VALUES
        bt = shared[bkey].clone("_again", set_unique=True)
    else:
        bt = create_const_tensor("b%d" % req["bseed"], [depth], bdt, bvals, quantization=QuantizationParameters(scale_f32=np.float32(1.0), zero_point=0))
        bt.values = bvals.astype(bt.dtype.as_numpy_type())
        if shared is not None:
            shared[bkey] = bt
    from ethosu.vela.tensor import TensorFormat, TensorPurpose

    bt.purpose = TensorPurpose.FSBias
    bt.format = TensorFormat.NHWC
    wt.purpose = TensorPurpose.Weights
    ifm = Tensor([1, 8, 8, depth if kind == "depthwise" else ic] if kind != "fc" else [1, ic], dts[req["dt"]], "ifm")
    ifm.quantization = QuantizationParameters(scale_f32=_scales(req, 0)[0], zero_point=0 if req["dt"] != "uint8" else 128)
    ofm = Tensor([1, 8, 8, depth] if kind != "fc" else [1, depth], dts[req["dt"]], "ofm")
    ofm.quantization = QuantizationParameters(scale_f32=_scales(req, 0)[2], zero_point=0)
    optype = {"conv": Op.Conv2DBias, "depthwise": Op.DepthwiseConv2DBias, "fc": Op.FullyConnected}[kind]
    if req.get("tconv"):
        optype = Op.Conv2DBackpropInputSwitchedBias
    op = Operation(Op.Conv2DBias if req.get("as_conv") else optype, "op")
    if req.get("as_conv"):
        op.type = Op.FullyConnected  # as convert_conv_to_fc leaves it: type rewritten, original type kept
    op.add_input_tensor(ifm)
    op.add_input_tensor(wt)
    if req.get("tconv"):  # operand order after the rewrite: IFM, weights, output shape, bias
        op.add_input_tensor(create_const_tensor("oshape", [4], DataType.int32, [1, 8, 8, depth]))
    op.add_input_tensor(bt)
    op.set_output_tensor(ofm)
    kern = Kernel(kw, kh, 1, 1, req["dil"][0], req["dil"][1])
    return op, wt, bt, kern


def encode(req, shared=None):
    from ethosu.vela import weight_compressor as wc
    from ethosu.vela.architecture_features import Accelerator, create_default_arch

    arch = create_default_arch(Accelerator(req["acc"]))
    op, wt, bt, kern = make_op(req, shared)
    w, s = wc.encode_weight_and_scale_tensor(arch, op, wt, bt, kern, _Blk(req["blk"]), list(req["slices"]))
    return describe(w), describe(s), wt, bt, op


def describe(t):
    if t is None:
        return None
    return dict(buffer=bytes(t.buffer), ranges=[(int(k.core), int(k.depth), int(r.offset), int(r.scale_bytes), int(r.weight_offset), int(r.weight_bytes)) for k, r in t.encoded_ranges.items()],
                dbs=[int(x) for x in t.double_buffer_sizes], trav=str(getattr(t, "hw_traversal", None)))


def expected_scale(req, ch):
    s_in, s_w, s_out = _scales(req, ch if req["per_channel"] else 0)
    if req["dt"] == "uint8" or (req["kind"] == "fc" and not req.get("as_conv")):
        real = float(np.double(s_in * s_w) / np.double(s_out))
    else:
        real = float((np.double(s_in) * np.double(s_w)) / np.double(s_out))
    m, e = Q.quantize_multiplier(real)
    shift = 31 - e
    if req["dt"] == "int16" and not req.get("bias32"):  # the 16-bit form belongs to the 40-bit accumulators of an int64 bias
        red = ((m + (1 << 15)) >> 16) if m < (32767 << 16) else 32767
        return red, shift - 16
    return m, shift


def judge(req, w, s, wt, bt):
    """returns list of problems for one encode result"""
    probs = []
    mc = __import__("ethosu.mlw_codec", fromlist=["x"])
    ncores = ACCS[req["acc"]]
    depth = req["depth"]
    a = isa.ACCELERATORS[req["acc"]]
    buf = w["buffer"]
    scale_src = s if s is not None else w
    sbuf = scale_src["buffer"]
    ranges = {(c, d): (off, sb, wo, wb) for c, d, off, sb, wo, wb in w["ranges"]}
    sranges = {(c, d): (off, sb, wo, wb) for c, d, off, sb, wo, wb in scale_src["ranges"]}
    wvals = np.asarray(wt.values).astype(np.int64)
    if req["kind"] == "fc":
        wvals = wvals.reshape(1, 1, *wvals.shape)
    wz = wvals - req["wzp"]
    if req.get("tconv"):
        wz = np.flip(wz, axis=(0, 1))  # the hardware convolves the upscaled IFM with the mirrored kernel
    bvals = np.asarray(bt.values).astype(np.int64)
    kh, kw = req["k"]
    # traversal decision (A3 / encoder rule): part-kernel-first when it utilises the MACs at least as well, or IFM depth <= 8
    ifm_depth = wz.shape[2]
    bits = 16 if req["dt"] == "int16" else 8
    part = False
    if req["kind"] in ("conv", "fc"):
        ksz = kh * kw
        du = ifm_depth / (-(-ifm_depth // (32 if bits == 8 else 16)) * (32 if bits == 8 else 16))
        pu = (ifm_depth / (-(-ifm_depth // 8) * 8)) * (ksz / (-(-ksz // (4 if bits == 8 else 2)) * (4 if bits == 8 else 2)))
        part = pu >= du or ifm_depth <= 8
    prev_end = 0
    s_prev_end = 0
    expected_keys = []
    sl = req["slices"]
    sizes_by_parity = [0, 0]
    for idx in range(len(sl) - 1):
        d0, d1 = sl[idx], sl[idx + 1]
        slice_start = None
        slice_end = None
        for c in range(min(ncores, depth)):
            cbd = (req["blk"] + ncores - 1 - c) // ncores
            if cbd == 0:
                continue
            expected_keys.append((c, d0))
            if (c, d0) not in ranges:
                probs.append("no encoded range for core %d, slice starting at channel %d" % (c, d0))
                continue
            off, sb, wo, wb = ranges[(c, d0)]
            chans = list(range(d0 + c, d1, ncores))
            if off % 16:
                probs.append("range (core %d, slice %d) starts at %d: not 16-byte aligned" % (c, d0, off))
            if off < prev_end:
                probs.append("range (core %d, slice %d) at %d overlaps / precedes the previous range ending at %d" % (c, d0, off, prev_end))
            if off + wo + wb > len(buf):
                probs.append("range (core %d, slice %d) runs past the buffer" % (c, d0))
                continue
            # scale section
            soff, ssb, _, _ = sranges.get((c, d0), (None, None, None, None))
            if soff is None:
                probs.append("no scale range for core %d slice %d" % (c, d0))
            else:
                if ssb != 10 * len(chans):
                    probs.append("scale section of (core %d, slice [%d:%d]) has %d bytes = %s records; the core owns %d channels" % (c, d0, d1, ssb, ssb / 10, len(chans)))
                else:
                    raw = sbuf[soff:soff + ssb]
                    for j, ch in enumerate(chans):
                        r = raw[10 * j:10 * j + 10]
                        b = int.from_bytes(r[0:5], "little", signed=False)
                        if b & (1 << 39):
                            b -= 1 << 40
                        m = int.from_bytes(r[5:9], "little")
                        sh = r[9] & 0x3F
                        em, esh = expected_scale(req, ch)
                        if b != int(bvals[ch]):
                            probs.append("channel %d: bias record %d, bias tensor holds %d" % (ch, b, int(bvals[ch])))
                            break
                        if (m, sh) != (em, esh):
                            probs.append("channel %d: (multiplier, shift) record (%d, %d), reference derivation gives (%d, %d)" % (ch, m, sh, em, esh))
                            break
                if s is not None:
                    # a stand-alone scale tensor: the hardware is programmed with the 16-byte-rounded section length from a 16-byte
                    # aligned start, so sections must be aligned, in order and must not run into the next one or past the buffer
                    rounded = -(-ssb // 16) * 16
                    if soff % 16:
                        probs.append("scale range (core %d, slice %d) of the stand-alone scale tensor starts at %d: not 16-byte aligned" % (c, d0, soff))
                    if soff < s_prev_end:
                        probs.append("scale range (core %d, slice %d) at %d overlaps the previous scale section, which extends (rounded to 16) to %d" % (c, d0, soff, s_prev_end))
                    if soff + rounded > len(sbuf):
                        probs.append("scale section %d..%d (rounded to 16) of (core %d, slice %d) exceeds the scale tensor of %d bytes" % (soff, soff + rounded, c, d0, len(sbuf)))
                    s_prev_end = max(s_prev_end, soff + rounded)
                if s is None and wo != -(-ssb // 16) * 16:
                    probs.append("weight section of (core %d, slice %d) starts %d bytes after the range start; scale section padded to 16 is %d" % (c, d0, wo, -(-ssb // 16) * 16))
            # weight section
            if not chans:
                if wb or ssb:
                    probs.append("core %d owns no channel of slice [%d:%d] but its range holds %d scale / %d weight bytes" % (c, d0, d1, ssb or 0, wb))
                prev_end = max(prev_end, off)
                continue
            if wb % 16:
                probs.append("weight section of (core %d, slice %d) has %d bytes: not a multiple of 16" % (c, d0, wb))
            dec = np.asarray(mc.decode(bytearray(buf[off + wo: off + wo + wb])), dtype=np.int64)
            W = wz[:, :, :, chans].transpose(3, 0, 1, 2)
            exp = T.reorder(W, ofm_block_depth=cbd, ifm_ublock_depth=a["ifm_ublock"][2], ofm_ublock_depth=a["ofm_ublock"][2], is_depthwise=req["kind"] == "depthwise",
                            is_partkernel=part, ifm_bits=bits, decomp_h=8 // req["dil"][1], decomp_w=8 // req["dil"][0])
            if len(dec) < len(exp) or not np.array_equal(dec[:len(exp)], exp) or (dec[len(exp):] != 0).any():
                probs.append("weight section of (core %d, slice [%d:%d]) does not decode to the zero-point-corrected weights of channels %s in hardware order" % (c, d0, d1, chans[:4]))
            prev_end = off + wo + wb
            slice_start = off if slice_start is None else slice_start
            slice_end = prev_end
        if slice_start is not None:
            sizes_by_parity[idx % 2] = max(sizes_by_parity[idx % 2], slice_end - slice_start)
    extra = set(ranges) - set(expected_keys)
    if extra:
        probs.append("unexpected encoded ranges %s" % sorted(extra)[:4])
    for i in (0, 1):
        if w["dbs"][i] < sizes_by_parity[i]:
            probs.append("double_buffer_sizes[%d] = %d is smaller than a slice of that parity (%d bytes)" % (i, w["dbs"][i], sizes_by_parity[i]))
    return probs


def _req_child(req):
    core.bind_repo()
    w, s, wt, bt, op = encode(req)
    return judge(req, w, s, wt, bt)


def _req_shard(reqs):
    core.bind_repo()
    out = []
    for req in reqs:
        res, text = isolate.run_forked(_req_child, (req,), timeout=120)
        if res[0] != "ok":
            out.append((req, ["encode failed: %s %s" % (res[1], res[2][:120]) if res[0] == "exc" else str(res[:2])]))
        elif res[1]:
            out.append((req, res[1]))
    return len(reqs), out


# ---- (H) cache histories -----------------------------------------------------------------------------------
def history_alphabet():
    base = dict(kind="conv", depth=64, blk=16, acc="ethos-u55-128", dt="int8", per_channel=False, wzp=0, k=(3, 3), ic=8, dil=(1, 1), wseed=7, bseed=0)
    A = []
    for name, slices in (("full", [0, 64]), ("s16x4", [0, 16, 32, 48, 64]), ("s16+48", [0, 16, 64]), ("s32x2", [0, 32, 64]), ("s16+16+32", [0, 16, 32, 64])):
        A.append((name, dict(base, slices=slices)))
    A.append(("blk32_s16x4", dict(base, slices=[0, 16, 32, 48, 64], blk=32)))
    A.append(("dil2_full", dict(base, slices=[0, 64], dil=(2, 2))))
    A.append(("bias1_full", dict(base, slices=[0, 64], bseed=1)))
    A.append(("bias1_s16x4", dict(base, slices=[0, 16, 32, 48, 64], bseed=1)))
    A.append(("u65_s16x4", dict(base, slices=[0, 16, 32, 48, 64], acc="ethos-u65-512")))
    # another operator with the SAME bias constant and the same IFM / OFM scales but other weights with per-channel scales
    A.append(("perch_full", dict(base, slices=[0, 64], per_channel=True, wseed=8)))
    A.append(("perch_s16x4", dict(base, slices=[0, 16, 32, 48, 64], per_channel=True, wseed=8)))
    # a second weight tensor whose (core, slice) channel counts are not multiples of 8 (scale sections need padding to 16 bytes):
    # the second request of a pair hits the weight cache and only its scales are encoded afresh
    b2 = dict(base, depth=40, wseed=9, k=(1, 1), ic=16)
    A.append(("d40_u65", dict(b2, slices=[0, 16, 40], acc="ethos-u65-512")))
    A.append(("d40_u65_bias1", dict(b2, slices=[0, 16, 40], acc="ethos-u65-512", bseed=1)))
    A.append(("d40_u65_full_bias1", dict(b2, slices=[0, 40], acc="ethos-u65-512", bseed=1)))
    A.append(("d40_u65_full", dict(b2, slices=[0, 40], acc="ethos-u65-512")))
    A.append(("d40_s20x2_bias1", dict(b2, slices=[0, 20, 40], bseed=1)))
    A.append(("d40_s20x2", dict(b2, slices=[0, 20, 40])))
    return A


def _hist_child(names):
    core.bind_repo()
    A = dict(history_alphabet())
    shared = {}
    res = None
    for n in names:
        w, s, wt, bt, op = encode(A[n], shared)
        res = (w, s, judge(A[n], w, s, wt, bt), s is None)
    return res


def _cold_child(name):
    core.bind_repo()
    A = dict(history_alphabet())
    w, s, wt, bt, op = encode(A[name], {})
    probs = judge(A[name], w, s, wt, bt)
    return (w, s), probs


def _hist_shard(hists):
    core.bind_repo()
    out = []
    for h in hists:
        res, _ = isolate.run_forked(_hist_child, (h,), timeout=120)
        out.append((h, res))
    return out


def replay(ctx, case):
    if "cfg" in case:
        from .. import netrun
        from . import c01

        return netrun.replay_case(c01.oracle, case)
    core.bind_repo()
    if case.get("history"):
        cold, _ = isolate.run_forked(_cold_child, (case["history"][-1],), timeout=120)
        got, _ = isolate.run_forked(_hist_child, (case["history"],), timeout=120)
        if cold[0] != "ok" or got[0] != "ok":
            return ["child failed: %s %s" % (cold[:2], got[:2])]
        return list(got[1][2])
    res, _ = isolate.run_forked(_req_child, (case["req"],), timeout=120)
    return list(res[1]) if res[0] == "ok" else [str(res[:3])]


def run(ctx):
    core.bind_repo()
    reqs = requests(ctx.tier)
    n_nontrivial = sum(1 for r in reqs if len(r["slices"]) > 2 or ACCS[r["acc"]] > 1)
    for n, bad in pmap(_req_shard, [reqs[i:i + 24] for i in range(0, len(reqs), 24)]):
        ctx.count("requests", n)
        for req, probs in bad:
            key = "encode|%s|%s|cores%d|%s" % (req["kind"] + ("-transposed" if req.get("tconv") else ""), req["dt"] + ("+bias32" if req.get("bias32") else ""), ACCS[req["acc"]], probs[0].split("(")[0].split(":")[0][:50])
            ctx.violation(key, "%s  [request %s]" % ("; ".join(probs[:3]), req), dict(req=req))
    # histories
    A = history_alphabet()
    names = [a[0] for a in A]
    cold = {}
    for n in names:
        res, _ = isolate.run_forked(_cold_child, (n,), timeout=120)
        if res[0] != "ok":
            ctx.violation("cold|%s" % n, "cache-cold request %s failed: %s" % (n, res[:3]), dict(history=[n]))
            continue
        cold[n] = res[1][0]
        for p in res[1][1]:
            ctx.violation("cold-judge|%s|%s" % (n, p[:40]), p, dict(history=[n]))
    depth = 2 if ctx.tier == "quick" else 3
    hists = [list(h) for d in range(2, depth + 1) for h in itertools.product(names, repeat=d)]
    states = set()
    for out in pmap(_hist_shard, [hists[i:i + 8] for i in range(0, len(hists), 8)]):
        for h, res in out:
            ctx.count("histories")
            ctx.count("history_transitions", len(h))
            if res[0] != "ok":
                ctx.violation("history-crash|%s>%s" % (h[-2], h[-1]), "history %s failed: %s" % (h, res[:3]), dict(history=h))
                continue
            states.add((tuple(h[:-1]), hash(res[1][0]["buffer"])))
            if not res[1][3]:
                ctx.count("histories_with_cache_hit")
            # the tensors returned after a history must satisfy the same record/range/stream oracle as a fresh encoding
            # (a cache hit returns the cached weights plus, possibly, separately encoded scales)
            if res[1][2]:
                ctx.violation("cache|prev=%s|last=%s" % (h[-2], h[-1]), "after %s, request %s returns tensors that are not what a fresh encoding holds: %s" % (
                    h[:-1], h[-1], "; ".join(res[1][2][:2])), dict(history=h))
    cov = dict(
        states=len(states) + len(reqs), transitions=ctx.counters.get("history_transitions", 0) + len(reqs),
        traces_validated_against_impl=ctx.counters.get("histories", 0) + len(reqs),
        samples=[reqs[len(reqs) // 3], hists[5]], exhaustive=True,
        rule="(I) %d encode requests (kind x OFM depth x block depth x every closed slice list with cuts at multiples of 16 x 1/2 cores x int8/uint8/int16 x per-tensor/per-channel), %d of them multi-slice or 2-core; "
             "(H) every sequence of %d..%d requests over %d requests colliding on the cache key, compared with cache-cold results" % (len(reqs), n_nontrivial, 2, depth, len(names)),
        evaluations=len(reqs) + len(hists), distinct_nontrivial=n_nontrivial + len(hists),
    )
    # (N) the slicing the scheduler actually chooses for weights that do not fit the fast storage: every convolution of the emitted
    # streams must find, through its WEIGHT/SCALE registers, a stream that decodes to exactly its channels (functional executor of C01)
    from .. import netrun, sweep
    from . import c01

    plan = [p_ for p_ in sweep.default_plan(ctx.tier) if p_[0].startswith("bigweights")]
    # convolutions that share one weight tensor but not their biases: the second one hits the compression cache and gets a stand-alone scale
    # tensor whose (core, slice) ranges are addressed separately from the weight ranges (dual-core parts, several depth slices)
    from ..tfl import nets

    shared = sweep.histories(nets.STARTS_Q if ctx.tier == "quick" else nets.STARTS_T, ["conv_pair_shared", "conv_pair_shared_d3"] if ctx.tier != "quick" else ["conv_pair_shared"], 1)
    shared += [dict(start=([1, 8, 8, 64], "int8"), steps=["conv_pair_shared"]), dict(start=([1, 4, 4, 40], "int8"), steps=["conv3x3", "conv_again", "conv_again"])]
    plan.append(("sharedweightsxC8", shared, "c8"))
    plan.append(("sharedweightsxCW", shared[-2:], "cW"))
    cov["rule"] += "; (N) the 'sharedweights' level (convolutions sharing a weight tensor with their own biases x 8 + 5 configurations) and the 'bigweights' network level (weights far larger than the fast storage x 5 configurations) compiled by vela.main and executed by the functional executor"
    cov.pop("evaluations")
    cov.pop("distinct_nontrivial")
    return netrun.run(ctx, c01.oracle, "model_checking", rule=cov.pop("rule"),
                      assumptions=["scale records follow the TFLite derivation (float product for uint8/FC, double per factor for int8/int16, reduced multiplier for int16 with 64-bit bias)",
                                   "weight sections are decoded with the tree's reference decoder and compared with the traversal model (A3); the traversal choice rule (part-kernel vs depth-first) is the encoder's documented utilisation rule"],
                      plan=plan, nontrivial_stat="executions", key_fn=lambda key, name: "net|" + key, model_checking=True,
                      extra_cov=dict(cov, unit_requests=len(reqs), unit_histories=len(hists), unit_nontrivial=n_nontrivial + len(hists)))
