"""C12 - the offline arena plan is self-consistent and reported memory is sufficient (decided on the output file)."""
import re

from .. import forced, netrun, outfile
from ..npu import decode as D
from ..npu import footprint as F
from .c02 import _key, separate_cache


def liveness(sg):
    n = len(sg["ops"])
    nt = len(sg["tensors"])
    d = [None] * nt
    last = [None] * nt
    for i in sg["inputs"]:
        d[i] = -1
    for ti, t in enumerate(sg["tensors"]):
        if t["is_variable"]:
            d[ti] = -1
            last[ti] = n
    for oi, o in enumerate(sg["ops"]):
        for t in o["outputs"]:
            if t >= 0 and d[t] is None:
                d[t] = oi
        for t in o["inputs"]:
            if t >= 0:
                last[t] = oi if last[t] is None else max(last[t], oi)
    for t in sg["outputs"]:
        last[t] = n
    return d, last


def acc_of(cfg):
    return cfg.get("acc", "ethos-u65-256")


def copy_alias(an, sg, streams, acc, a, b, off, size):
    for s in streams:
        n = s.npu
        o = sg["ops"][n["op_index"]]
        if not ((a in o["inputs"] and b in o["outputs"]) or (b in o["inputs"] and a in o["outputs"])):
            continue
        if s.problems:
            return False
        for op in s.ops:
            r, w = F.op_accesses(op, acc)
            for lo, hi in w.get(1, []):
                if lo < off + size and off < hi:
                    return False
        return True
    return False


def oracle(case, rec, an, streams, mb):
    viol = []
    stats = dict(arena_tensors=0, live_pairs=0, inplace_pairs=0)
    sg = an["sg"]
    cfg = case["cfg"]
    align = cfg.get("align") or 16
    if an["offsets"] is None:
        if an["npu"]:
            viol.append(("no-offline-allocation", "output model has NPU operators but no OfflineMemoryAllocation metadata"))
        return viol, stats
    offs = an["offsets"]["offsets"]
    if an["offsets"]["n"] != len(sg["tensors"]) or len(offs) != len(sg["tensors"]):
        viol.append(("metadata-count", "metadata lists %d/%d offsets for %d tensors" % (an["offsets"]["n"], len(offs), len(sg["tensors"]))))
        return viol, stats
    containers = set()
    for n in an["npu"]:
        containers.add(n["scratch_tensor"])
        containers.add(n["fast_tensor"])
    d, last = liveness(sg)
    ordinary = []
    for ti, t in enumerate(sg["tensors"]):
        if offs[ti] < 0 or ti in containers:
            continue
        if d[ti] is None and last[ti] is None:
            continue  # unused tensor
        ordinary.append(ti)
        if offs[ti] % align:
            viol.append(("misaligned|%s" % t["name"], "arena tensor %s at offset %d is not %d-byte aligned" % (t["name"], offs[ti], align)))
    stats["arena_tensors"] = len(ordinary)
    ethosu = {n["op_index"] for n in an["npu"]}
    size = {ti: outfile.tensor_bytes(sg["tensors"][ti]) for ti in ordinary}
    for i, a in enumerate(ordinary):
        for b in ordinary[:i]:
            da, la = d[a] if d[a] is not None else -1, last[a] if last[a] is not None else d[a]
            db, lb = d[b] if d[b] is not None else -1, last[b] if last[b] is not None else d[b]
            lo, hi = max(da, db), min(la, lb)
            if lo > hi:
                continue
            stats["live_pairs"] += 1
            if offs[a] < offs[b] + size[b] and offs[b] < offs[a] + size[a] and size[a] and size[b]:
                # in-place use inside one Ethos-U operator (one is its input, the other its output) is delegated to C03
                if lo == hi and lo in ethosu:
                    o = sg["ops"][lo]
                    if (a in o["inputs"] and b in o["outputs"]) or (b in o["inputs"] and a in o["outputs"]):
                        stats["inplace_pairs"] += 1
                        continue
                # a CPU RESHAPE / SQUEEZE / EXPAND_DIMS whose result is exactly its operand's buffer is the documented in-place form of these
                # kernels (the reference kernels copy only when the two data pointers differ)
                if lo == hi and lo not in ethosu and 0 <= lo < len(sg["ops"]):
                    o = sg["ops"][lo]
                    if o["op"] in ("RESHAPE", "SQUEEZE", "EXPAND_DIMS") and offs[a] == offs[b] and size[a] == size[b] and \
                            ((a in o["inputs"][:1] and b in o["outputs"]) or (b in o["inputs"][:1] and a in o["outputs"])):
                        stats["inplace_pairs"] += 1
                        continue
                # an Ethos-U operator whose output IS its input (a bypassed memory-only operator lowered to a copy that is dropped
                # because source and destination coincide): same range, and the command stream never writes a byte of it, so both
                # names denote the same unchanged bytes for as long as either is live.  Anything that later overwrites the range
                # is another tensor and is judged as its own pair.
                if offs[a] == offs[b] and size[a] == size[b] and copy_alias(an, sg, streams, acc_of(cfg), a, b, offs[a], size[a]):
                    stats["copy_alias_pairs"] = stats.get("copy_alias_pairs", 0) + 1
                    continue
                viol.append(("arena-overlap|%s|%s" % (sg["tensors"][a]["name"], sg["tensors"][b]["name"]),
                             "tensors %s [%d,%d) live %d..%d and %s [%d,%d) live %d..%d overlap" % (
                                 sg["tensors"][a]["name"], offs[a], offs[a] + size[a], da, la, sg["tensors"][b]["name"], offs[b], offs[b] + size[b], db, lb)))
    need_arena = 0
    for ti in ordinary:
        need_arena = max(need_arena, offs[ti] + size[ti])
    need_fast = 0
    acc = cfg.get("acc", "ethos-u65-256")
    for si, s in enumerate(streams):
        n = s.npu
        so = offs[n["scratch_tensor"]]
        fo = offs[n["fast_tensor"]]
        if so != 0:
            viol.append(("scratch-offset", "scratch tensor at arena offset %d (must be 0)" % so))
        for ti in list(n["ifms"]) + list(n["ofms"]):
            if ti in size and offs[ti] + size[ti] > n["scratch_size"]:
                viol.append(("io-outside-scratch|%s" % sg["tensors"][ti]["name"], "custom-op operand %s [%d,%d) lies outside the scratch tensor [0,%d)" % (
                    sg["tensors"][ti]["name"], offs[ti], offs[ti] + size[ti], n["scratch_size"])))
        hi1 = hi2 = 0
        for oi, op in enumerate(s.ops):
            r, w = F.op_accesses(op, acc)
            gm = netrun.geometry_mismatch(s, oi)
            if gm:
                # known defect family, reported under its root cause (see C02): its stray IFM fetch is not re-reported here
                viol.append(("inconsistent-npu-op|%s/%s" % (op.kind, op.sub), "%s %s operation is geometrically inconsistent (%s)" % (op.kind, op.sub, gm)))
                r = {k: v for k, v in r.items() if k != D.ifm_of(op).region}
            for dct in (r, w):
                if 1 in dct:
                    hi1 = max(hi1, F.span(dct[1])[1])
                if 2 in dct:
                    hi2 = max(hi2, F.span(dct[2])[1])
        if hi1 > n["scratch_size"]:
            viol.append(("stream-outside-scratch|stream%d" % si, "command stream touches arena byte %d beyond the scratch tensor extent %d" % (hi1, n["scratch_size"])))
        need_arena = max(need_arena, n["scratch_size"], hi1)
        if separate_cache(cfg):
            need_fast = max(need_fast, n["fast_size"], hi2)
            if hi2 > n["fast_size"]:
                viol.append(("stream-outside-fast-scratch|stream%d" % si, "command stream touches cache byte %d beyond the fast-scratch extent %d" % (hi2, n["fast_size"])))
        else:
            if (fo, n["fast_size"]) != (so, n["scratch_size"]):
                viol.append(("fast-scratch-alias", "memory mode without separate cache: fast scratch (%d,%d) does not alias scratch (%d,%d)" % (fo, n["fast_size"], so, n["scratch_size"])))
    # reported figures
    if rec.get("csv"):
        try:
            sram = float(rec["csv"]["sram_memory_used"]) * 1024
            dram = float(rec["csv"]["dram_memory_used"]) * 1024
        except (KeyError, ValueError):
            sram = dram = None
        if sram is not None:
            if separate_cache(cfg):
                if dram + 0.5 < need_arena:
                    viol.append(("reported-arena-too-small", "summary reports %.0f bytes of DRAM but the arena plan needs %d" % (dram, need_arena)))
                if sram + 0.5 < need_fast:
                    viol.append(("reported-sram-too-small", "summary reports %.0f bytes of SRAM but the cache plan needs %d" % (sram, need_fast)))
            else:
                if sram + 0.5 < need_arena:
                    viol.append(("reported-sram-too-small", "summary reports %.0f bytes of SRAM but the arena plan needs %d" % (sram, need_arena)))
    return viol, stats


def replay(ctx, case):
    return netrun.replay_case(oracle, case)


def run(ctx):
    return netrun.run(
        ctx, oracle, "exploration",
        rule="every generated network x configuration (memory modes x allocators x --cpu-tensor-alignment x arena-cache sizes) is compiled; offsets from the "
             "OfflineMemoryAllocation metadata, sizes from shape x type, liveness from the output operator order; pairwise live-overlap, alignment, scratch container and reported sizes are checked",
        assumptions=["scratch / fast-scratch tensors are containers (DESIGN.md A8); in-place input/output aliasing inside one Ethos-U operator is delegated to C03",
                     "summary CSV figures are KiB; arena is DRAM in Dedicated_Sram and the Ethos-U65 default, SRAM otherwise"],
        extra_cases=forced.forced_cases(ctx.tier), nontrivial_stat="live_pairs", key_fn=_key)
