"""C17 - the driver payload frames the command stream (exhaustive over lengths 0..N x 6 accelerators)."""
import struct

from .. import core
from ..npu import isa


def expected_payload(words, acc):
    """Pinned framing: COP1, config action(+config word, id word), NOPs so that the first command word
    sits at a byte offset = 0 mod 16, CmdStream header with a 24 bit length split 8/16, words LE."""
    f = isa.ACCELERATORS[acc]
    macs_cc = f["macs"] * f["cores"]
    log2 = macs_cc.bit_length() - 1
    assert 1 << log2 == macs_cc
    shram_kib = f["banks"] * f["cores"]
    config = (log2 & 0xF) | (0 << 4) | ((shram_kib & 0xFF) << 8) | (f["product"] << 28)
    major, minor, patch = isa.ARCH_VERSION
    idw = (patch << 16) | (minor << 20) | (major << 28)
    out = [isa.FOURCC_COP1, isa.DA_CONFIG | ((1 << 4 | 0) << 16), config, idw]
    while (len(out) + 1) % 4 != 0:
        out.append(isa.DA_NOP)
    n = len(words)
    out.append(isa.DA_CMDSTREAM | (((n >> 16) & 0xFF) << 8) | ((n & 0xFFFF) << 16))
    assert len(out) % 4 == 0
    return struct.pack("<%dI" % len(out), *out) + struct.pack("<%dI" % n, *words)


def parse_payload(b, acc):
    """Independent parse, as the driver does: returns (problems, words)."""
    problems = []
    if len(b) % 4:
        return ["payload length not a multiple of 4"], None
    w = struct.unpack("<%dI" % (len(b) // 4), b)
    if not w or w[0] != isa.FOURCC_COP1:
        return ["no COP1 tag"], None
    i = 1
    seen_config = False
    while i < len(w):
        cmd = w[i] & 0xFF
        if cmd == isa.DA_CONFIG:
            seen_config = True
            i += 3
        elif cmd == isa.DA_NOP:
            i += 1
        elif cmd == isa.DA_CMDSTREAM:
            n = ((w[i] >> 8) & 0xFF) << 16 | (w[i] >> 16)
            i += 1
            if (i * 4) % 16:
                problems.append("command words start at byte %d, not 16-aligned" % (i * 4))
            if len(w) - i != n:
                problems.append("declared %d words, %d follow" % (n, len(w) - i))
            if not seen_config:
                problems.append("no config action before the stream")
            return problems, list(w[i:])
        else:
            return ["unknown driver action %#x at word %d" % (w[i], i)], None
    return ["no command stream action"], None


ACCS = list(isa.ACCELERATORS)


def _npu_acc(api, acc):
    return {
        "ethos-u65-512": api.NpuAccelerator.Ethos_U65_512, "ethos-u65-256": api.NpuAccelerator.Ethos_U65_256,
        "ethos-u55-256": api.NpuAccelerator.Ethos_U55_256, "ethos-u55-128": api.NpuAccelerator.Ethos_U55_128,
        "ethos-u55-64": api.NpuAccelerator.Ethos_U55_64, "ethos-u55-32": api.NpuAccelerator.Ethos_U55_32}[acc]


def check_case(case):
    """case = dict(acc, n, pattern, entry). Returns list of problem strings."""
    core.bind_repo(need_codec=False)
    from ethosu.vela import api
    from ethosu.vela.errors import VelaError

    acc, n, pattern = case["acc"], case["n"], case.get("pattern", "counter")
    if pattern == "counter":
        words = [(0x9E3779B1 * (i + 1) + case.get("salt", 0)) & 0xFFFFFFFF for i in range(n)]
    elif pattern == "ones":
        words = [0xFFFFFFFF] * n
    else:
        words = [0] * n
    try:
        if case.get("entry", "api") == "api":
            got = api.npu_create_driver_payload(words, _npu_acc(api, acc))
        else:
            from ethosu.vela import driver_actions
            from ethosu.vela.architecture_features import Accelerator, create_default_arch

            got = driver_actions.create_driver_payload(words, create_default_arch(Accelerator(acc)))
    except VelaError as e:
        if n >= 1 << 24:
            return []
        return ["VelaError for a %d-word stream: %s" % (n, e)]
    except Exception as e:
        return ["%s for a %d-word stream: %s" % (type(e).__name__, n, e)]
    if n >= 1 << 24:
        return ["stream of %d words (>= 2^24) accepted" % n]
    probs, pw = parse_payload(got, acc)
    if pw is not None and pw != words:
        probs.append("command words modified")
    exp = expected_payload(words, acc)
    if got != exp and not probs:
        k = next(i for i in range(min(len(got), len(exp))) if got[i] != exp[i]) if len(got) == len(exp) or True else 0
        probs.append("header differs from the pinned framing at byte %d: got %s expected %s" % (
            k, got[max(0, k - 4):k + 8].hex(), exp[max(0, k - 4):k + 8].hex()))
    return probs


def generator_limit_child(acc):
    """the generator's own size limit (16 MiB of command words = 2^22 words): streams of exactly 2^22 - 1, 2^22 and 2^22 + 1 words are produced by
    pre-filling the real CommandStreamEmitter with filler words before a real operation is generated through the public API (the emitter is
    wrapped inside this process only); the first must be accepted, the others rejected with a VelaError"""
    core.bind_repo(need_codec=False)
    from ethosu.vela import api
    from ethosu.vela import register_command_stream_generator as G
    from ethosu.vela.errors import VelaError

    from ..npu import oplists

    ae = _npu_acc(api, acc)
    op = oplists.build_op(api, oplists.dma_spec(0, 0x100, 1, 0x4000, 256), ae)
    base = len(api.npu_generate_register_command_stream([op], ae))
    probs = []
    orig_init = G.CommandStreamEmitter.__init__
    LIMIT = 1 << 22
    try:
        for total in (LIMIT - 1, LIMIT, LIMIT + 1):
            fill = total - base

            def init(self, _fill=fill):
                orig_init(self)
                self.cmd_stream.append(tuple([0x00100000] * _fill))
                self.offset += _fill * G.CommandStreamEmitter.WORD_SIZE if hasattr(self, "offset") else 0

            G.CommandStreamEmitter.__init__ = init
            try:
                words = api.npu_generate_register_command_stream([op], ae)
                accepted = len(words)
            except VelaError:
                accepted = None
            finally:
                G.CommandStreamEmitter.__init__ = orig_init
            if total >= LIMIT and accepted is not None:
                probs.append("generator accepted a command stream of %d words = %d bytes (hardware limit: below 16 MiB)" % (accepted, 4 * accepted))
            if total < LIMIT and accepted is None:
                probs.append("generator rejected a command stream of %d words (below the 16 MiB limit)" % total)
            if accepted is not None and accepted != total:
                probs.append("harness: expected %d words, generator returned %d" % (total, accepted))
    finally:
        G.CommandStreamEmitter.__init__ = orig_init
    return probs


def _shard(args):
    acc, lens, salt = args
    out = []
    n_ok = 0
    for n in lens:
        for entry in ("api", "internal"):
            for pattern in (("counter", "ones") if n <= 64 else ("counter",)):
                case = dict(acc=acc, n=n, pattern=pattern, entry=entry, salt=salt)
                p = check_case(case)
                n_ok += 1
                if p:
                    out.append((case, p))
    return n_ok, out


def _history_child(seq):
    """payloads for a sequence of accelerators in ONE process: each must equal the pinned framing (no state may leak)."""
    probs = []
    for i, acc in enumerate(seq):
        for entry in ("api", "internal"):
            p = check_case(dict(acc=acc, n=5 + i, pattern="counter", entry=entry, salt=i))
            if p:
                probs.append("after %s: %s/%s: %s" % (list(seq[:i]), acc, entry, p[0]))
    return probs


def _history_shard(seqs):
    from ..isolate import run_forked

    core.bind_repo(need_codec=False)
    out = []
    for seq in seqs:
        res, _ = run_forked(_history_child, (seq,), timeout=60, capture=True)
        if res[0] != "ok":
            out.append((seq, ["history child failed: %s" % (res[:3],)]))
        elif res[1]:
            out.append((seq, res[1]))
    return len(seqs), out


def replay(ctx, case):
    if case.get("genlimit"):
        from .. import isolate

        res, _ = isolate.run_forked(generator_limit_child, (case["acc"],), timeout=600)
        return list(res[1]) if res[0] == "ok" else ["limit probe did not finish: %s" % (res[:3],)]
    if "cfg" in case:
        from .. import netrun

        return netrun.replay_case(net_oracle, case)
    if "seq" in case:
        return _history_child(case["seq"])
    return check_case(case)


def run(ctx):
    from ..isolate import pmap

    core.bind_repo(need_codec=False)
    maxlen = 4096 if ctx.tier == "quick" else 16384
    big = [65535, 65536, 65537] if ctx.tier == "quick" else [65535, 65536, 65537, (1 << 24) - 2, (1 << 24) - 1, 1 << 24, (1 << 24) + 1]
    shards = []
    for acc in ACCS:
        lens = list(range(0, maxlen + 1))
        step = 512
        for i in range(0, len(lens), step):
            shards.append((acc, lens[i:i + step], ctx.seed))
        for b in big:
            shards.append((acc, [b], ctx.seed))
        if ctx.tier == "quick" and acc in ACCS[:2]:
            # the 24-bit length field: the last stream that fits and the first that does not (two accelerators in the quick tier)
            for b in ((1 << 24) - 1, 1 << 24):
                shards.append((acc, [b], ctx.seed))
    evals = 0
    distinct = set()
    for n_ok, bad in pmap(_shard, shards):
        evals += n_ok
        for case, probs in bad:
            key = "acc=%s|n=%d|entry=%s|%s" % (case["acc"], case["n"], case["entry"], probs[0][:60])
            ctx.violation(key, "; ".join(probs), case)
    for acc, lens, _ in shards:
        for n in lens:
            distinct.add((acc, n))
    # history space: every sequence of accelerators up to depth d in one process (fresh forked process per sequence)
    import itertools

    depth = 3 if ctx.tier == "quick" else 4
    seqs = [list(s) for d in range(2, depth + 1) for s in itertools.product(ACCS, repeat=d)]
    hshards = [seqs[i:i + 16] for i in range(0, len(seqs), 16)]
    nh = 0
    for n, bad in pmap(_history_shard, hshards):
        nh += n
        for seq, probs in bad:
            # shortest failing suffix pair identifies the failure
            ctx.violation("history|%s" % ">".join(seq[-2:]) + "|" + probs[0].split(": ", 1)[-1][:50], "; ".join(probs[:3]), dict(seq=seq))
    evals += nh
    # the generator's own limit (16 MiB of command words), at the three lengths around it
    from .. import isolate

    for acc in (("ethos-u55-128", "ethos-u65-512") if ctx.tier == "quick" else ACCS):
        res, _ = isolate.run_forked(generator_limit_child, (acc,), timeout=600)
        evals += 3
        if res[0] != "ok":
            ctx.violation("generator-limit|%s|harness" % acc, "limit probe did not finish: %s" % (res[:3],), dict(genlimit=True, acc=acc))
            continue
        for p_ in res[1]:
            ctx.violation("generator-limit|%s|%s" % (acc, p_.split(" a command")[0][:40]), p_, dict(genlimit=True, acc=acc))
    # net part: the command-stream tensor of every Ethos-U operator of every compiled network, as stored in the output file
    from .. import netrun
    from ..tfl import nets

    plan = [("G1xC8", nets.STARTS_Q, nets.SIGMA_Q, 1, "c8")] if ctx.tier == "quick" else None
    return netrun.run(
        ctx, net_oracle, "exploration",
        rule="unit: every length 0..%d and boundary lengths %s x 6 accelerators x {public api, internal entry}, accelerator call histories to depth %d; "
             "net: the stored command-stream tensor of every Ethos-U operator of the sweep: its bytes must be exactly the pinned framing of the words the generator returned "
             "(header length = words that follow, nothing after them, tensor shape = byte length); non-trivial = compilations with at least one Ethos-U operator" % (maxlen, big, depth),
        assumptions=["pinned framing table in vfw/npu/isa.py (config/id word layout, action tags) is the hardware/driver truth"],
        plan=plan, nontrivial_stat="payloads", key_fn=lambda key, name: key,
        extra_cov=dict(unit_evaluations=evals, unit_distinct=len(distinct), histories=nh, samples_unit=[dict(acc="ethos-u55-128", n=5, payload=check_payload_hex("ethos-u55-128", 5))],
                       bound="lengths 0..%d complete; beyond that only the listed boundary lengths; accelerator call histories complete to depth %d" % (maxlen, depth)))


def net_oracle(case, rec, an, streams, mb):
    viol = []
    stats = dict(payloads=0, payload_bytes=0)
    acc = case["cfg"].get("acc", "ethos-u65-256")
    sg = an["sg"]
    for i, (n, s) in enumerate(zip(an["npu"], streams)):
        b = n["payload"]
        stats["payloads"] += 1
        stats["payload_bytes"] += len(b)
        probs, words = parse_payload(b, acc)
        for p_ in probs:
            viol.append(("payload|%s" % p_.split(",")[0][:40].replace("%", ""), "Ethos-U operator %d: %s" % (i, p_)))
        shape = sg["tensors"][n["payload_tensor"]]["shape"]
        if shape != [len(b)]:
            viol.append(("payload|tensor-shape", "Ethos-U operator %d: command-stream tensor shape %s, buffer has %d bytes" % (i, shape, len(b))))
        if s.side is not None and words is not None:
            exp = expected_payload(list(s.side["words"]), acc)
            if exp != b:
                viol.append(("payload|differs-from-framing", "Ethos-U operator %d: stored payload (%d bytes) is not the framing of the %d words the generator returned (%d bytes)" % (
                    i, len(b), len(s.side["words"]), len(exp))))
    return viol, stats


def check_payload_hex(acc, n):
    core.bind_repo(need_codec=False)
    from ethosu.vela import api

    return api.npu_create_driver_payload(list(range(n)), _npu_acc(api, acc)).hex()
