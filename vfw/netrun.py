"""Shared driver for properties decided on compile records of the network sweep.

An oracle is a function (case, rec, an, streams) -> (violations [(key, what)], stats {name: int}) that runs inside
the forked child, on the bytes of the output file (side-band data only names things / cross-validates)."""
import collections
import os

from . import compile as C
from . import core, isolate, outfile, sweep
from .npu import decode as D
from .npu import isa


class Stream:
    __slots__ = ("npu", "config", "idw", "words", "ops", "problems", "side", "acc", "cmds")


def decode_streams(an, rec, acc):
    out = []
    side = rec["sideband"].streams if rec.get("sideband") else []
    for i, n in enumerate(an["npu"]):
        s = Stream()
        s.npu = n
        s.config, s.idw, s.words, p1 = D.parse_payload(n["payload"])
        s.ops, p2 = D.decode(s.words)
        s.problems = p1 + p2
        s.acc = acc
        s.side = None
        s.cmds = None
        out.append(s)
    # match side-band streams to file streams by their words (order in the file may differ from generation order)
    for s in out:
        for sd in side:
            if sd["words"] == s.words:
                s.side = sd
                break
        for sg in (rec["sideband"].subgraphs if rec.get("sideband") else []):
            if sg["words"] == s.words:
                cm = [c for c in sg["cmds"] if c["kind"] != "nop"]
                if len(cm) == len(s.ops):
                    s.cmds = cm
                break
    return out


def sideband_matches(s):
    """1:1 match of decoded HwOps against the NpuOperation list handed to the generator."""
    if s.side is None:
        return False
    ops = s.side["npu_ops"]
    if len(ops) != len(s.ops):
        return False
    kinds = {"NpuDmaOperation": "dma", "NpuConv2DOperation": "conv", "NpuConvDepthWiseOperation": "depthwise",
             "NpuPoolingOperation": "pool", "NpuElementWiseOperation": "elementwise"}
    return all(kinds.get(type(a).__name__) == b.kind for a, b in zip(ops, s.ops))


def geometry_mismatch(s, i):
    """Root-cause predicate for one defect family: the NpuOperation handed to the generator declares an IFM box
    smaller than the region the operation fetches (derived from OFM extent, kernel, stride, padding, upscale).
    Returns None or a short description."""
    if s.side is None or not sideband_matches(s):
        return None
    op, so = s.ops[i], s.side["npu_ops"][i]
    if op.kind == "dma":
        return None
    # only un-striped operators belong to this family (their IFM box is the whole view that a graph rewrite re-derived);
    # a wrong box or padding of ONE stripe of a striped operator is a different defect and must stay visible
    if s.cmds is None or s.cmds[i]["kind"] != "stripe" or not (s.cmds[i]["first"] and s.cmds[i]["last"]):
        return None
    h, w = D.ifm_extent(op)
    sh, sw = int(so.ifm.shape.height), int(so.ifm.shape.width)
    if h > sh or w > sw:
        return "declared IFM box %dx%d, fetched %dx%d" % (sh, sw, h, w)
    return None


_oracle = None
_need_side = True


def _child(case):
    if case.get("forced"):
        from . import forced

        forced.install(case["forced"])
    mb = sweep.model_bytes(case, case.get("seed", 0)) if "h" in case else case["model_bytes"]
    rec = C.compile_main(mb, case["cfg"], want_sideband=_need_side)
    if rec["status"] != 0 or rec["out"] is None:
        return dict(compiled=False)
    an = outfile.analyse(rec["out"])
    streams = decode_streams(an, rec, case["cfg"].get("acc", "ethos-u65-256"))
    viol, stats = _oracle(case, rec, an, streams, mb)
    stats = dict(stats)
    stats["streams"] = len(streams)
    stats["hwops"] = sum(len(s.ops) for s in streams)
    stats["words"] = sum(len(s.words) for s in streams)
    stats["streams_matched_sideband"] = sum(1 for s in streams if sideband_matches(s))
    return dict(compiled=True, viol=viol[:20], nviol=len(viol), stats=stats)


def child_for(oracle, need_side=True):
    def f(case):
        global _oracle, _need_side
        _oracle = oracle
        _need_side = need_side
        return _child(case)
    f.__name__ = "child_" + oracle.__name__
    return f


def replay_case(oracle, case):
    core.bind_repo()
    res, text = isolate.run_forked(child_for(oracle), (case,), timeout=600)
    if res[0] != "ok":
        return ["compile failed in replay: %s" % (res[:3],)]
    r = res[1]
    if not r["compiled"]:
        return []
    return ["%s: %s" % (k, w) for k, w in r["viol"]]


def _name(case):
    n = sweep.case_name(case) if "h" in case else str(case.get("name"))
    if case.get("forced"):
        n += " forced-stripe=%d" % case["forced"]
    return n


def run(ctx, oracle, level, rule, assumptions, plan=None, nontrivial_stat=None, extra_cases=(), key_with_case=True, model_checking=False, key_fn=None, extra_cov=None):
    core.bind_repo()
    plan = plan or sweep.default_plan(ctx.tier)
    lv = sweep.levels(ctx.tier, plan)
    only = os.environ.get("VERIF_ONLY_LEVELS")  # development aid (never set by a registered command): restrict the sweep to the named levels
    if only:
        lv = [(n, cs) for n, cs in lv if any(n.startswith(o) for o in only.split(","))]
        extra_cases = [] if "forced" not in only else extra_cases
    cases = []
    sizes = {}
    for name, cs in lv:
        for c in cs:
            c["seed"] = ctx.seed
            c["level"] = name
        sizes[name] = len(cs)
        cases += cs
    for c in extra_cases:
        c.setdefault("level", "extra")
        sizes[c["level"]] = sizes.get(c["level"], 0) + 1
        cases.append(c)
    done = collections.Counter()
    compiled = 0
    nontrivial = 0
    sample = None
    for case, res, text, secs in sweep.run_cases(cases, child_for(oracle), timeout=180, seed=ctx.seed):
        done[case["level"]] += 1
        if res[0] != "ok":
            ctx.count("compile_crashed_or_rejected")  # C13's business
            continue
        r = res[1]
        if not r["compiled"]:
            ctx.count("compile_crashed_or_rejected")
            continue
        compiled += 1
        ctx.merge_counters(r["stats"])
        if nontrivial_stat and r["stats"].get(nontrivial_stat):
            nontrivial += 1
        if sample is None and r["stats"].get("hwops", 0) >= 2:
            sample = dict(case=_name(case), stats=r["stats"])
        for key, what in r["viol"]:
            name = _name(case)
            full = key_fn(key, name) if key_fn else ("%s|%s" % (key, name) if key_with_case else key)
            ctx.violation(full, "%s  [case %s]" % (what, name), {k: v for k, v in case.items() if k != "model_bytes"})
    if compiled == 0:
        ctx.inconclusive = "no case compiled"
    elif nontrivial_stat and nontrivial == 0:
        ctx.inconclusive = "no compiled case had %s > 0: sweep is vacuous for this property" % nontrivial_stat
    c = ctx.counters
    cov = dict(
        evaluations=compiled,
        distinct_nontrivial=nontrivial if nontrivial_stat else compiled,
        rule=rule + " | levels: %s | non-trivial = compile records with %s > 0" % (sizes, nontrivial_stat or "an output model"),
        samples=[sample],
        exhaustive=True,
        levels_complete={k: done[k] == v for k, v in sizes.items()},
    )
    if model_checking:
        cov["states"] = c.get("states", 0)
        cov["transitions"] = c.get("transitions", 0)
        cov["traces_validated_against_impl"] = c.get("streams_matched_sideband", 0)
    if extra_cov:
        for k, v in extra_cov.items():
            if k in ("states", "transitions", "evaluations", "distinct_nontrivial") and isinstance(cov.get(k), int):
                cov[k] += v
            else:
                cov[k] = v
    return ctx.finish(level, cov, assumptions)
