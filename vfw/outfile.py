"""Everything the checks need from an output model, taken from the file bytes only (plain reader)."""
import numpy as np

from .tfl import read
from .tfl.build import NP_DTYPES

ESIZE = {"int8": 1, "uint8": 1, "int16": 2, "uint16": 2, "int32": 4, "uint32": 4, "int64": 8, "float32": 4, "bool": 1, "float16": 2, "float64": 8, "uint64": 8}


def tensor_bytes(t):
    if t["shape"] is None:
        return 0
    n = 1
    for d in t["shape"]:
        n *= d
    return n * ESIZE.get(t["dtype"], 1)


def analyse(out_bytes):
    m = read.read_model(out_bytes)
    offsets = None
    for name, bidx in m["metadata"]:
        if name == "OfflineMemoryAllocation":
            raw = m["buffers"][bidx]
            a = np.frombuffer(raw, dtype=np.int32)
            offsets = dict(version=int(a[0]), subgraph=int(a[1]), n=int(a[2]), offsets=[int(x) for x in a[3:]])
    sg = m["subgraphs"][0] if m["subgraphs"] else dict(tensors=[], ops=[], inputs=[], outputs=[])
    npu = []
    for oi, o in enumerate(sg["ops"]):
        if o["custom_code"] != "ethos-u":
            continue
        ins = o["inputs"]
        t = sg["tensors"]
        cs, flash, scratch, fast = ins[0], ins[1], ins[2], ins[3]
        npu.append(dict(
            op_index=oi,
            payload=m["buffers"][t[cs]["buffer"]] or b"",
            payload_tensor=cs,
            flash=m["buffers"][t[flash]["buffer"]] or b"",
            flash_tensor=flash, scratch_tensor=scratch, fast_tensor=fast,
            flash_size=(t[flash]["shape"] or [0])[0],
            scratch_size=(t[scratch]["shape"] or [0])[0],
            fast_size=(t[fast]["shape"] or [0])[0],
            ifms=ins[4:], ofms=o["outputs"]))
    return dict(model=m, sg=sg, offsets=offsets, npu=npu)


def arena_offset(an, ti):
    if an["offsets"] is None or ti >= len(an["offsets"]["offsets"]):
        return None
    v = an["offsets"]["offsets"][ti]
    return None if v < 0 else v


def tensor_data_present(an, ti):
    """the tensor owns a constant buffer in the file (it is not an arena-resident activation)"""
    t = an["sg"]["tensors"][ti]
    b = t.get("buffer")
    return bool(b) and bool(an["model"]["buffers"][b])
