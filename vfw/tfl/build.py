"""TFLite flatbuffer writer from a plain model description (dicts), using only the generated
flatbuffer builder functions in ethosu/vela/tflite (no Vela logic).

model = dict(
  subgraphs=[dict(name=str, tensors=[T], inputs=[int], outputs=[int], ops=[O])],
  description=str, metadata=[(name, bytes)], version=3)
T = dict(name, shape=[..]|None, dtype='int8', quant=None|dict(scale=[..], zp=[..], qdim=0, min=[..], max=[..]),
         data=None|np.ndarray|bytes, is_variable=False, buffer=None|int (explicit shared buffer id))
O = dict(op='CONV_2D' | ('CUSTOM', 'name'), inputs=[int], outputs=[int], opts=None|(TableName, {Field: value}),
         custom=None|bytes, version=1, intermediates=[int])
"""
import importlib

import flatbuffers
import numpy as np

DTYPES = {  # TensorType codes of the schema
    "float32": 0, "float16": 1, "int32": 2, "uint8": 3, "int64": 4, "string": 5, "bool": 6, "int16": 7,
    "complex64": 8, "int8": 9, "float64": 10, "complex128": 11, "uint64": 12, "resource": 13, "variant": 14,
    "uint32": 15, "uint16": 16, "int4": 17,
}
NP_DTYPES = {"float32": np.float32, "float16": np.float16, "int32": np.int32, "uint8": np.uint8, "int64": np.int64,
             "bool": np.bool_, "int16": np.int16, "int8": np.int8, "float64": np.float64, "uint32": np.uint32,
             "uint16": np.uint16, "uint64": np.uint64}


def _mod(name):
    return importlib.import_module("ethosu.vela.tflite." + name)


def _table(b, cls, fields):
    m = _mod(cls)
    getattr(m, cls + "Start")(b)
    for k, v in fields:
        getattr(m, cls + "Add" + k)(b, v)
    return getattr(m, cls + "End")(b)


def _vec_scalars(b, arr, dtype):
    return b.CreateNumpyVector(np.asarray(arr, dtype=dtype).reshape(-1))


def _vec_offsets(b, offs):
    b.StartVector(4, len(offs), 4)
    for o in reversed(offs):
        b.PrependUOffsetTRelative(o)
    return b.EndVector()


def _options_table(b, name, fields):
    """fields: {FieldName: scalar | list (vector of int32 unless tagged) | ('f32vec', list)}"""
    prepared = []
    for k, v in fields.items():
        if isinstance(v, tuple) and v and v[0] == "f32vec":
            prepared.append((k, _vec_scalars(b, v[1], np.float32)))
        elif isinstance(v, (list, np.ndarray)):
            prepared.append((k, _vec_scalars(b, v, np.int32)))
        elif isinstance(v, str):
            prepared.append((k, b.CreateString(v)))
        else:
            prepared.append((k, v))
    return _table(b, name, prepared)


def opcode_of(op):
    BO = _mod("BuiltinOperator").BuiltinOperator
    if isinstance(op, (tuple, list)):
        return BO.CUSTOM, op[1]
    if isinstance(op, int):
        return op, None
    return getattr(BO, op), None


def serialise(model):
    b = flatbuffers.Builder(4096)
    BOpt = _mod("BuiltinOptions").BuiltinOptions
    # operator codes (unique by (code, custom name, version)), in first-use order
    codes = []
    for sg in model["subgraphs"]:
        for o in sg["ops"]:
            code, cname = opcode_of(o["op"])
            key = (code, cname, o.get("version", 1))
            if key not in codes:
                codes.append(key)
    # buffers: 0 is the empty sentinel
    buffers = [None]
    explicit = {}
    sg_offs = []
    for sg in model["subgraphs"]:
        t_offs = []
        for t in sg["tensors"]:
            data = t.get("data")
            if t.get("buffer") is not None and t["buffer"] in explicit:
                bidx = explicit[t["buffer"]]
            elif data is None and not t.get("own_empty_buffer"):
                bidx = 0
            else:
                if data is None:
                    raw = b""
                elif isinstance(data, (bytes, bytearray)):
                    raw = bytes(data)
                else:
                    raw = np.ascontiguousarray(np.asarray(data, dtype=NP_DTYPES[t["dtype"]])).tobytes()
                buffers.append(raw)
                bidx = len(buffers) - 1
                if t.get("buffer") is not None:
                    explicit[t["buffer"]] = bidx
            name = b.CreateString(t["name"])
            shape = None if t.get("shape") is None else _vec_scalars(b, t["shape"], np.int32)
            q = t.get("quant")
            qoff = None
            if q is not None:
                qf = []
                if q.get("min") is not None:
                    qf.append(("Min", _vec_scalars(b, q["min"], np.float32)))
                if q.get("max") is not None:
                    qf.append(("Max", _vec_scalars(b, q["max"], np.float32)))
                if q.get("scale") is not None:
                    qf.append(("Scale", _vec_scalars(b, q["scale"], np.float32)))
                if q.get("zp") is not None:
                    qf.append(("ZeroPoint", _vec_scalars(b, q["zp"], np.int64)))
                if q.get("qdim"):
                    qf.append(("QuantizedDimension", int(q["qdim"])))
                qoff = _table(b, "QuantizationParameters", qf)
            f = []
            if shape is not None:
                f.append(("Shape", shape))
            f.append(("Type", DTYPES[t["dtype"]]))
            f.append(("Buffer", bidx))
            f.append(("Name", name))
            if qoff is not None:
                f.append(("Quantization", qoff))
            if t.get("is_variable"):
                f.append(("IsVariable", True))
            t_offs.append(_table(b, "Tensor", f))
        o_offs = []
        for o in sg["ops"]:
            code, cname = opcode_of(o["op"])
            cidx = codes.index((code, cname, o.get("version", 1)))
            ins = _vec_scalars(b, o["inputs"], np.int32)
            outs = _vec_scalars(b, o["outputs"], np.int32)
            inter = _vec_scalars(b, o["intermediates"], np.int32) if o.get("intermediates") else None
            optoff = None
            opttype = 0
            if o.get("opts") is not None:
                oname, ofields = o["opts"]
                optoff = _options_table(b, oname, ofields)
                opttype = getattr(BOpt, oname)
            cust = None
            if o.get("custom") is not None:
                cust = _vec_scalars(b, np.frombuffer(bytes(o["custom"]), dtype=np.uint8), np.uint8)
            f = [("OpcodeIndex", cidx), ("Inputs", ins), ("Outputs", outs)]
            if optoff is not None:
                f += [("BuiltinOptionsType", opttype), ("BuiltinOptions", optoff)]
            if cust is not None:
                f.append(("CustomOptions", cust))
            if inter is not None:
                f.append(("Intermediates", inter))
            o_offs.append(_table(b, "Operator", f))
        tv = _vec_offsets(b, t_offs)
        iv = _vec_scalars(b, sg["inputs"], np.int32)
        ov = _vec_scalars(b, sg["outputs"], np.int32)
        opv = _vec_offsets(b, o_offs)
        nm = b.CreateString(sg.get("name", "main"))
        sg_offs.append(_table(b, "SubGraph", [("Tensors", tv), ("Inputs", iv), ("Outputs", ov), ("Operators", opv), ("Name", nm)]))
    # metadata
    md_offs = []
    for name, raw in model.get("metadata", []):
        buffers.append(bytes(raw))
        nm = b.CreateString(name)
        md_offs.append(_table(b, "Metadata", [("Name", nm), ("Buffer", len(buffers) - 1)]))
    c_offs = []
    for code, cname, version in codes:
        f = []
        cn = b.CreateString(cname) if cname is not None else None
        f.append(("DeprecatedBuiltinCode", min(code, 127)))
        if cn is not None:
            f.append(("CustomCode", cn))
        f.append(("Version", version))
        f.append(("BuiltinCode", code))
        c_offs.append(_table(b, "OperatorCode", f))
    b_offs = []
    for raw in buffers:
        if raw is None or len(raw) == 0:
            if raw is None:
                b_offs.append(_table(b, "Buffer", []))
            else:
                b.StartVector(1, 0, 16)
                dv = b.EndVector()
                b_offs.append(_table(b, "Buffer", [("Data", dv)]))
        else:
            b.StartVector(1, len(raw), 16)
            b.head = b.head - len(raw)
            b.Bytes[b.head:b.head + len(raw)] = raw
            dv = b.EndVector()
            b_offs.append(_table(b, "Buffer", [("Data", dv)]))
    cv = _vec_offsets(b, c_offs)
    sv = _vec_offsets(b, sg_offs)
    bv = _vec_offsets(b, b_offs)
    mv = _vec_offsets(b, md_offs) if md_offs else None
    desc = b.CreateString(model.get("description", "vfw generated"))
    f = [("Version", model.get("version", 3)), ("OperatorCodes", cv), ("Subgraphs", sv), ("Description", desc), ("Buffers", bv)]
    if mv is not None:
        f.append(("Metadata", mv))
    root = _table(b, "Model", f)
    b.Finish(root, b"TFL3")
    return bytes(b.Output())
