"""Corner-model generator: every builtin operator of the schema alone, in several arities / ranks / types /
quantisation styles, plus structural corner cases.  All models are schema-valid flatbuffers."""
import importlib

import numpy as np

from .nets import Net

SHAPES = {0: [], 1: [7], 2: [1, 7], 3: [1, 5, 7], 4: [1, 4, 5, 8], 5: [1, 2, 3, 4, 8]}


def builtin_ops():
    BO = importlib.import_module("ethosu.vela.tflite.BuiltinOperator").BuiltinOperator
    return sorted(((v, k) for k, v in vars(BO).items() if isinstance(v, int) and k != "CUSTOM"))


def op_alone(opname, arity, dtype, shape, quant="tensor", const_inputs=True, batch=None, out_dtype=None):
    """One operator `opname` with `arity` inputs and one output of the same shape, no builtin options."""
    net = Net(0)
    shape = list(shape)
    noq = quant == "none" or dtype in ("float32", "bool", "int64", "float16")
    x = net.act(shape, dtype, name="input", noquant=noq)
    if quant == "axis" and shape and not noq:
        ax = len(shape) - 1
        net.T(x)["quant"] = dict(scale=[0.01 + 0.001 * i for i in range(shape[ax])], zp=[0] * shape[ax], qdim=ax)
    net.inputs.append(x)
    net.open.append(x)
    ins = [x]
    for k in range(1, arity):
        if const_inputs and dtype in ("int8", "uint8", "int16", "int32"):
            c = net.const(shape, dtype, "data", scale=None if noq else [0.02], zp=0)
        elif const_inputs and dtype == "float32":
            c = len(net.tensors)
            net.tensors.append(dict(name="c%d" % c, shape=shape, dtype=dtype, quant=None, data=np.full(shape, 0.5, dtype=np.float32)))
        else:
            c = net.act(shape, dtype, name="input%d" % k, noquant=noq)
            net.inputs.append(c)
        ins.append(c)
    od = out_dtype or dtype
    y = net.act(shape, od, name="output", noquant=noq or od in ("float32", "bool", "int64"))
    opts = None
    if opname in ("ADD", "SUB", "MUL"):
        opts = ({"ADD": "AddOptions", "SUB": "SubOptions", "MUL": "MulOptions"}[opname], dict(FusedActivationFunction=0))
    net.op(opname, ins, [y], opts)
    return net.model()


def corner_cases(tier):
    """List of dict(kind='corner', spec=...) where spec can be rebuilt by build_corner()."""
    out = []
    ops = builtin_ops()
    for code, name in ops:
        for arity in (1, 2, 3):
            out.append(dict(op=name, arity=arity, dtype="int8", rank=4, quant="tensor"))
        if tier == "thorough":
            for rank in (0, 1, 2, 3, 5):
                out.append(dict(op=name, arity=1, dtype="int8", rank=rank, quant="tensor"))
                out.append(dict(op=name, arity=2, dtype="int8", rank=rank, quant="tensor"))
            for dt in ("uint8", "int16", "int32", "float32", "bool", "int64"):
                out.append(dict(op=name, arity=1, dtype=dt, rank=4, quant="tensor"))
                out.append(dict(op=name, arity=2, dtype=dt, rank=4, quant="tensor"))
            out.append(dict(op=name, arity=2, dtype="int8", rank=4, quant="none"))
            out.append(dict(op=name, arity=2, dtype="int8", rank=4, quant="axis"))
            out.append(dict(op=name, arity=2, dtype="int8", rank=4, quant="tensor", dyn=True))
            out.append(dict(op=name, arity=1, dtype="int8", rank=4, quant="tensor", batch=2))
        else:
            out.append(dict(op=name, arity=2, dtype="float32", rank=2, quant="none"))
            out.append(dict(op=name, arity=1, dtype="int16", rank=3, quant="tensor"))
    # mixed input/output element types (widening / narrowing) on the elementwise family
    mixed_ops = ["ADD", "SUB", "MUL", "MAXIMUM", "MINIMUM", "ABS", "LEAKY_RELU", "QUANTIZE", "RELU", "LOGISTIC", "TANH", "SQUARED_DIFFERENCE", "RSQRT", "EXP", "HARD_SWISH"]
    if tier == "thorough":
        mixed_ops = [name for _, name in ops]
    for name in mixed_ops:
        for di, do in (("int8", "int16"), ("int8", "int32"), ("int16", "int32"), ("int16", "int8"), ("uint8", "int8"), ("int8", "uint8"), ("int32", "int8")):
            for arity in (1, 2):
                out.append(dict(op=name, arity=arity, dtype=di, rank=4, quant="tensor", out_dtype=do))
    # structural corners
    for s in ("empty_subgraph", "unused_tensor", "dup_inputs", "zero_len_buffer", "unknown_opcode", "output_is_input",
              "two_outputs_same", "dup_names", "no_shape", "const_output", "two_subgraphs", "zero_dim"):
        out.append(dict(struct=s))
    return [dict(kind="corner", spec=s) for s in out]


def build_corner(spec):
    if "struct" in spec:
        return _structural(spec["struct"])
    shape = list(SHAPES[spec["rank"]])
    if spec.get("batch") and shape:
        shape[0] = spec["batch"]
    return op_alone(spec["op"], spec["arity"], spec["dtype"], shape, spec.get("quant", "tensor"), const_inputs=not spec.get("dyn"), out_dtype=spec.get("out_dtype"))


def _structural(kind):
    from . import nets

    base = nets.build(dict(start=([1, 8, 8, 8], "int8"), steps=["conv3x3", "relu"]), 0)
    sg = base["subgraphs"][0]
    if kind == "empty_subgraph":
        return dict(subgraphs=[dict(name="main", tensors=[], inputs=[], outputs=[], ops=[])])
    if kind == "unused_tensor":
        sg["tensors"].append(dict(name="unused", shape=[1, 3], dtype="int8", quant=dict(scale=[0.1], zp=[0]), data=None))
        sg["tensors"].append(dict(name="unused_const", shape=[4], dtype="int8", quant=dict(scale=[0.1], zp=[0]), data=np.arange(4, dtype=np.int8)))
    elif kind in ("unused_input_first", "unused_input_last", "dead_op_input", "const_input"):
        # interface entries that no surviving operator needs: an input nobody reads (before / after the real one), an input read only by an
        # operator whose result is dropped, an input entry that names a constant
        if kind == "const_input":
            sg["inputs"] = sg["inputs"] + [sg["ops"][0]["inputs"][1]]
        else:
            sg["tensors"].append(dict(name="spare_in", shape=[1, 4, 4, 8], dtype="int8", quant=dict(scale=[0.1], zp=[0]), data=None))
            extra = len(sg["tensors"]) - 1
            sg["inputs"] = [extra] + sg["inputs"] if kind == "unused_input_first" else sg["inputs"] + [extra]
            if kind == "dead_op_input":
                sg["tensors"].append(dict(name="dropped", shape=[1, 4, 4, 8], dtype="int8", quant=dict(scale=[0.1], zp=[0]), data=None))
                sg["ops"].append(dict(sg["ops"][1], inputs=[extra], outputs=[len(sg["tensors"]) - 1]))
    elif kind == "dup_inputs":
        sg["inputs"] = sg["inputs"] * 2
    elif kind == "zero_len_buffer":
        sg["tensors"][sg["inputs"][0]]["own_empty_buffer"] = True
    elif kind == "unknown_opcode":
        sg["ops"][1]["op"] = 250
    elif kind == "output_is_input":
        sg["outputs"] = [sg["inputs"][0]] + sg["outputs"]
    elif kind == "two_outputs_same":
        sg["outputs"] = sg["outputs"] * 2
    elif kind == "dup_names":
        for t in sg["tensors"]:
            t["name"] = "same"
    elif kind == "no_shape":
        sg["tensors"][sg["outputs"][0]]["shape"] = None
    elif kind == "const_output":
        sg["outputs"] = sg["outputs"] + [sg["ops"][0]["inputs"][1]]
    elif kind == "two_subgraphs":
        other = nets.build(dict(start=([1, 4, 4, 8], "int8"), steps=["maxpool2x2"]), 0)["subgraphs"][0]
        other["name"] = "second"
        base["subgraphs"].append(other)
    elif kind == "zero_dim":
        z = nets.build(dict(start=([1, 0, 8, 8], "int8"), steps=["relu"]), 0)
        return z
    return base
