"""Network grammar: concrete operator instances appended to a start tensor.

A network is a *history*: (start, [instance names]); `build(history, seed)` is deterministic.
The seed only selects constant contents (never shapes, operators or wiring)."""
import hashlib
import math

import numpy as np

QLAT = [(0.0235, -3), (0.0471, 5), (0.0118, 0), (0.0941, -128)]  # activation (scale, zp) lattice for int8
PAD_SAME, PAD_VALID = 0, 1
ACT = {"NONE": 0, "RELU": 1, "RELU_N1_TO_1": 2, "RELU6": 3, "TANH": 4}


def _rng(seed, *key):
    h = hashlib.sha256(repr((seed,) + key).encode()).digest()
    return np.random.Generator(np.random.PCG64(int.from_bytes(h[:8], "little")))


class Net:
    def __init__(self, seed=0):
        self.seed = seed
        self.tensors = []
        self.ops = []
        self.inputs = []
        self.open = []  # activation tensors produced so far (indices), in creation order
        self.cur = None
        self.consumed = set()
        self.qctr = 0
        self.taps = []

    # tensors ----------------------------------------------------------------------------------
    def qparams(self, dtype):
        s, z = QLAT[self.qctr % len(QLAT)]
        self.qctr += 1
        if dtype == "uint8":
            z = z + 128
        elif dtype == "int16":
            z = 0
            s = s / 256
        return s, z

    def act(self, shape, dtype, name=None, q=None, noquant=False):
        if q is None and not noquant:
            q = self.qparams(dtype)
        idx = len(self.tensors)
        self.tensors.append(dict(name=name or "t%d" % idx, shape=list(shape), dtype=dtype,
                                 quant=None if noquant else dict(scale=[q[0]], zp=[q[1]]), data=None))
        return idx

    def const(self, shape, dtype, kind, scale=None, zp=0, name=None, lo=None, hi=None, values=None):
        idx = len(self.tensors)
        info = np.iinfo(dtype) if dtype not in ("float32",) else None
        rng = _rng(self.seed, "const", idx)
        if values is not None:
            data = np.asarray(values, dtype=dtype).reshape(shape)
        elif kind == "weights":
            lo_ = -127 if dtype == "int8" else (0 if dtype == "uint8" else -32767)
            hi_ = 127 if dtype == "int8" else (255 if dtype == "uint8" else 32767)
            data = rng.integers(lo_, hi_ + 1, size=shape).astype(dtype)
        elif kind == "bias":
            data = rng.integers(-2000, 2001, size=shape).astype(dtype)
        else:
            data = rng.integers(info.min if lo is None else lo, (info.max if hi is None else hi) + 1, size=shape).astype(dtype)
        quant = None
        if scale is not None:
            sc = list(np.atleast_1d(np.asarray(scale, dtype=np.float64)))
            zps = list(np.atleast_1d(zp)) if not isinstance(zp, int) else [zp] * len(sc)
            quant = dict(scale=[float(x) for x in sc], zp=[int(x) for x in zps])
            if len(sc) > 1:
                quant["qdim"] = 0
        self.tensors.append(dict(name=name or "c%d" % idx, shape=list(shape), dtype=dtype, quant=quant, data=data))
        return idx

    def op(self, op, inputs, outputs, opts=None, custom=None, version=1):
        self.ops.append(dict(op=op, inputs=list(inputs), outputs=list(outputs), opts=opts, custom=custom, version=version))
        for i in inputs:
            if i >= 0:
                self.consumed.add(i)
        for o in outputs:
            if self.tensors[o]["data"] is None:
                self.open.append(o)
        self.cur = outputs[0]

    def T(self, i):
        return self.tensors[i]

    def scale(self, i):
        return self.tensors[i]["quant"]["scale"][0]

    def zp(self, i):
        return self.tensors[i]["quant"]["zp"][0]

    def model(self):
        outs = [i for i in self.open if i not in self.consumed or i in self.taps]
        if not outs:
            outs = [self.cur]
        return dict(subgraphs=[dict(name="main", tensors=self.tensors, inputs=list(self.inputs), outputs=outs, ops=self.ops)])


# ----------------------------------------------------------------------------------------------
# operator instances: fn(net) -> True if appended, False if not applicable to net.cur

INSTANCES = {}


def inst(name, tags=()):
    def deco(f):
        INSTANCES[name] = (f, tuple(tags))
        return f
    return deco


def _hw4(net):
    t = net.T(net.cur)
    return len(t["shape"]) == 4 and t["dtype"] in ("int8", "uint8", "int16")


def _out_hw(h, k, s, d, pad):
    dk = d * (k - 1) + 1
    if pad == PAD_SAME:
        return -(-h // s)
    return (h - dk) // s + 1 if h >= dk else 0


def _wdtype(dt):
    return "int8" if dt in ("int8", "int16") else "uint8"


def _conv_like(net, kind, k, s, pad, act, cout=None, dil=1, per_channel=False, dm=1, dyn=False, bias=True, wzp8=0, groups=1):
    if not _hw4(net):
        return False
    x = net.cur
    t = net.T(x)
    n, h, w, c = t["shape"]
    dil_h, dil_w = dil if isinstance(dil, tuple) else (dil, dil)
    oh, ow = _out_hw(h, k, s, dil_h, pad), _out_hw(w, k, s, dil_w, pad)
    if oh <= 0 or ow <= 0:
        return False
    dt = t["dtype"]
    wdt = _wdtype(dt)
    if kind == "conv":
        cout = cout or 8
        if c % groups or cout % groups:
            return False
        wshape = [cout, k, k, c // groups]  # groups > 1: grouped convolution (filter depth = input depth / groups)
    else:
        cout = c * dm
        wshape = [1, k, k, cout]
    nsc = cout if per_channel else 1
    wsc = [0.004 + 0.0007 * (i % 5) for i in range(nsc)]
    wzp = wzp8 if wdt == "int8" else 121
    if dyn:
        wi = net.act(wshape, wdt, q=(wsc[0], wzp), name="dynw%d" % len(net.tensors))
        net.inputs.append(wi)
    else:
        wi = net.const(wshape, wdt, "weights", scale=wsc, zp=wzp)
        if per_channel and kind != "conv":
            net.T(wi)["quant"]["qdim"] = 3
    ins = [x, wi]
    if bias:
        bdt = "int32" if dt != "int16" else "int64"
        bi = net.const([cout], bdt, "bias", scale=[net.scale(x) * v for v in wsc], zp=0)
        ins.append(bi)
    else:
        ins.append(-1)
    y = net.act([n, oh, ow, cout], dt)
    if kind == "conv":
        opts = ("Conv2DOptions", dict(Padding=pad, StrideW=s, StrideH=s, FusedActivationFunction=ACT[act], DilationWFactor=dil_w, DilationHFactor=dil_h))
        net.op("CONV_2D", ins, [y], opts, version=3 if per_channel else 1)
    else:
        opts = ("DepthwiseConv2DOptions", dict(Padding=pad, StrideW=s, StrideH=s, DepthMultiplier=dm, FusedActivationFunction=ACT[act], DilationWFactor=dil_w, DilationHFactor=dil_h))
        net.op("DEPTHWISE_CONV_2D", ins, [y], opts, version=3 if per_channel else 1)
    return True


inst("conv1x1", "c")(lambda n: _conv_like(n, "conv", 1, 1, PAD_SAME, "NONE"))
inst("conv3x3_g2")(lambda n: _conv_like(n, "conv", 3, 1, PAD_SAME, "NONE", groups=2))
inst("conv3x3_g2_pc")(lambda n: _conv_like(n, "conv", 3, 1, PAD_SAME, "NONE", groups=2, per_channel=True))
inst("conv1x1_g4")(lambda n: _conv_like(n, "conv", 1, 1, PAD_SAME, "NONE", groups=4, cout=16))
inst("conv3x3", "c")(lambda n: _conv_like(n, "conv", 3, 1, PAD_SAME, "NONE", per_channel=True))
inst("conv3x3s2", "c")(lambda n: _conv_like(n, "conv", 3, 2, PAD_SAME, "RELU"))
inst("conv3x3v_relu6", "c")(lambda n: _conv_like(n, "conv", 3, 1, PAD_VALID, "RELU6", cout=16))
inst("conv3x3d2")(lambda n: _conv_like(n, "conv", 3, 1, PAD_SAME, "NONE", dil=2))
@inst("conv_again")
def _conv_again(net, dil=None):
    """a second convolution that shares the weight tensor of the most recent convolution but has its own bias
    (the compiler then keeps one encoded weight tensor and a separate scale/bias tensor for the second operator)"""
    x = net.cur
    t = net.T(x)
    if not _hw4(net):
        return False
    prev = [o for o in net.ops if o["op"] == "CONV_2D" and net.T(o["inputs"][1])["data"] is not None and o["inputs"][2] >= 0]
    if not prev:
        return False
    o = prev[-1]
    wi = o["inputs"][1]
    wshape = net.T(wi)["shape"]
    if wshape[3] != t["shape"][3] or net.T(o["inputs"][0])["dtype"] != t["dtype"]:
        return False
    opts = dict(o["opts"][1])
    if dil is not None:
        opts["DilationHFactor"] = opts["DilationWFactor"] = dil
    n, h, w, c = t["shape"]
    k = wshape[1]
    dil = opts["DilationHFactor"]
    oh, ow = _out_hw(h, k, opts["StrideH"], dil, opts["Padding"]), _out_hw(w, k, opts["StrideW"], opts["DilationWFactor"], opts["Padding"])
    if oh <= 0 or ow <= 0:
        return False
    wsc = net.T(wi)["quant"]["scale"]
    bdt = net.T(o["inputs"][2])["dtype"]
    bi = net.const([wshape[0]], bdt, "bias", scale=[net.scale(x) * v for v in wsc], zp=0)
    y = net.act([n, oh, ow, wshape[0]], t["dtype"])
    net.op("CONV_2D", [x, wi, bi], [y], ("Conv2DOptions", opts), version=o["version"])
    return True


@inst("conv_twins_shared", "r")
def _conv_twins_shared(net):
    """two 3x3 convolutions of the SAME input that share the weight tensor AND the bias tensor and differ only in their output quantisation
    (both results are network outputs): everything a cache of encoded weights or scales can be keyed on is equal except the OFM scale"""
    if not _hw4(net) or net.T(net.cur)["shape"][3] > 64:
        return False
    x = net.cur
    if not _conv_like(net, "conv", 3, 1, PAD_SAME, "NONE", cout=8):
        return False
    o = net.ops[-1]
    t = net.T(x)
    y1 = o["outputs"][0]
    y2 = net.act(net.T(y1)["shape"], t["dtype"], q=(net.scale(y1) * 4.0, net.zp(y1)))
    net.op("CONV_2D", [x, o["inputs"][1], o["inputs"][2]], [y2], o["opts"], version=o["version"])
    return True


@inst("conv_pair_shared")
def _conv_pair_shared(net):
    """two 3x3 convolutions (depth preserved) that share one weight tensor and have different biases"""
    if not _hw4(net) or net.T(net.cur)["shape"][3] > 64:
        return False
    c = net.T(net.cur)["shape"][3]
    if not _conv_like(net, "conv", 3, 1, PAD_SAME, "NONE", cout=c):
        return False
    return _conv_again(net)


def _conv_pair_shared_dil(net, d1, d2):
    """two 3x3 convolutions sharing one weight tensor, with dilations d1 and d2 (> 2 means the compiler rewrites the kernel)"""
    if not _hw4(net) or net.T(net.cur)["shape"][3] > 64:
        return False
    c = net.T(net.cur)["shape"][3]
    if not _conv_like(net, "conv", 3, 1, PAD_SAME, "NONE", cout=c, dil=d1):
        return False
    return _conv_again(net, dil=d2)


inst("conv3x3d3", "t")(lambda n: _conv_like(n, "conv", 3, 1, PAD_SAME, "NONE", dil=3))
inst("conv3x3d4x3", "t")(lambda n: _conv_like(n, "conv", 3, 1, PAD_SAME, "NONE", dil=(4, 3)))
inst("conv_pair_shared_d3", "t")(lambda n: _conv_pair_shared_dil(n, 3, 3))
inst("conv_pair_shared_d3d1", "t")(lambda n: _conv_pair_shared_dil(n, 3, 1))
inst("conv3x3_c72_pc", "t")(lambda n: _conv_like(n, "conv", 3, 1, PAD_SAME, "NONE", cout=72, per_channel=True))
inst("conv1x1_c40", "t")(lambda n: _conv_like(n, "conv", 1, 1, PAD_SAME, "RELU", cout=40))
inst("conv3x3_c1")(lambda n: _conv_like(n, "conv", 3, 1, PAD_SAME, "NONE", cout=1))
inst("conv3x3d2x1", "t")(lambda n: _conv_like(n, "conv", 3, 1, PAD_SAME, "NONE", dil=(2, 1)))
inst("conv3x3d1x2", "t")(lambda n: _conv_like(n, "conv", 3, 1, PAD_SAME, "NONE", dil=(1, 2)))
inst("dw3x3d2x1", "t")(lambda n: _conv_like(n, "dw", 3, 1, PAD_SAME, "NONE", dil=(2, 1)))
inst("conv5x5_c24", "t")(lambda n: _conv_like(n, "conv", 5, 1, PAD_SAME, "NONE", cout=24, per_channel=True))
inst("conv2x2v", "t")(lambda n: _conv_like(n, "conv", 2, 1, PAD_VALID, "RELU_N1_TO_1"))
inst("conv1x1_nobias", "t")(lambda n: _conv_like(n, "conv", 1, 1, PAD_SAME, "NONE", bias=False))
inst("conv3x3s3", "t")(lambda n: _conv_like(n, "conv", 3, 3, PAD_SAME, "NONE"))
inst("dw3x3", "c")(lambda n: _conv_like(n, "dw", 3, 1, PAD_SAME, "NONE", per_channel=True))
inst("dw3x3s2", "c")(lambda n: _conv_like(n, "dw", 3, 2, PAD_SAME, "RELU6"))
inst("dw5x5v", "t")(lambda n: _conv_like(n, "dw", 5, 1, PAD_VALID, "NONE"))
inst("dw3x3_dm2", "t")(lambda n: _conv_like(n, "dw", 3, 1, PAD_SAME, "NONE", dm=2) if n.T(n.cur)["shape"][-1] <= 16 else False)
inst("conv_dynw")(lambda n: _conv_like(n, "conv", 1, 1, PAD_SAME, "NONE", dyn=True))
inst("conv_dynw_nobias")(lambda n: _conv_like(n, "conv", 1, 1, PAD_SAME, "NONE", dyn=True, bias=False))


@inst("fc")
def _fc(net, units=10):
    t = net.T(net.cur)
    if t["dtype"] not in ("int8", "uint8", "int16"):
        return False
    nel = int(np.prod(t["shape"]))
    if nel > 2048 or nel == 0:
        return False
    x = net.cur
    dt = t["dtype"]
    if len(t["shape"]) != 2:
        # explicit reshape to [1, nel]
        shp = net.const([2], "int32", "data", values=[1, nel])
        r = net.act([1, nel], dt, q=(net.scale(x), net.zp(x)))
        net.op("RESHAPE", [x, shp], [r], ("ReshapeOptions", dict(NewShape=[1, nel])))
        x = r
    else:
        nel = t["shape"][1]
    wdt = _wdtype(dt)
    wi = net.const([units, nel], wdt, "weights", scale=[0.005], zp=0 if wdt == "int8" else 128)
    bi = net.const([units], "int32" if dt != "int16" else "int64", "bias", scale=[net.scale(x) * 0.005], zp=0)
    y = net.act([net.T(x)["shape"][0], units], dt)
    net.op("FULLY_CONNECTED", [x, wi, bi], [y], ("FullyConnectedOptions", dict(FusedActivationFunction=0, WeightsFormat=0, KeepNumDims=False)))
    return True


# convolutions with constant weights and bias that stay on the CPU (stride 4 is not supported by the NPU)
inst("cpu_conv_s4")(lambda n: _conv_like(n, "conv", 3, 4, PAD_SAME, "NONE"))
inst("cpu_dw_s4", "t")(lambda n: _conv_like(n, "dw", 3, 4, PAD_SAME, "RELU"))
# int8 weights with a non-zero zero point (legal per-tensor quantisation): such an operator stays on the CPU; with --force-symmetric-int-weights the
# compiler zeroes the zero point of operators it accelerates - a stride-4 operator stays on the CPU either way and must keep its weights' parameters
inst("cpu_dw_s4_asym", "t")(lambda n: _conv_like(n, "dw", 3, 4, PAD_SAME, "NONE", wzp8=5))
inst("cpu_conv_s4_asym", "t")(lambda n: _conv_like(n, "conv", 3, 4, PAD_SAME, "NONE", wzp8=-7))


@inst("cpu_conv_s4_pair")
def _cpu_conv_s4_pair(net):
    """two CPU-resident convolutions in sequence that share the weight AND the bias tensor"""
    if not _hw4(net) or net.T(net.cur)["shape"][3] > 64:
        return False
    c = net.T(net.cur)["shape"][3]
    if not _conv_like(net, "conv", 3, 4, PAD_SAME, "NONE", cout=c):
        return False
    o = net.ops[-1]
    x = net.cur
    t = net.T(x)
    n, h, w, _ = t["shape"]
    oh, ow = _out_hw(h, 3, 4, 1, PAD_SAME), _out_hw(w, 3, 4, 1, PAD_SAME)
    y = net.act([n, oh, ow, c], t["dtype"])
    net.op("CONV_2D", [x, o["inputs"][1], o["inputs"][2]], [y], ("Conv2DOptions", dict(o["opts"][1])), version=o["version"])
    return True


@inst("late_cpu_reader")
def _late_cpu_reader(net):
    """y = ADD(x, const) on the NPU, then a CPU operator (NEG) that still reads x: x must survive the in-place-eligible ADD"""
    x = net.cur
    if not _binary(net, "ADD", "const"):
        return False
    y = net.cur
    t = net.T(x)
    z = net.act(t["shape"], t["dtype"])
    net.op("NEG", [x], [z], ("NegOptions", {}))
    net.cur = y
    return True


@inst("skip_over_cpu")
def _skip_over_cpu(net):
    """y = ADD(x, const) [NPU]; w = NEG(y) [CPU]; out = ADD(x, w) [second NPU subgraph reads x again]"""
    x = net.cur
    t = net.T(x)
    if t["dtype"] not in ("int8", "uint8", "int16") or not _binary(net, "ADD", "const"):
        return False
    y = net.cur
    w = net.act(t["shape"], t["dtype"], q=(net.scale(y), net.zp(y)))
    net.op("NEG", [y], [w], ("NegOptions", {}))
    out = net.act(t["shape"], t["dtype"])
    net.op("ADD", [x, w], [out], ("AddOptions", dict(FusedActivationFunction=0)))
    return True


def _cpu_sub_f32(net, pot):
    """float32 side branch with a SUB that stays on the CPU and carries a non-default option value"""
    a = net.act([1, 2, 2, 4], "float32", name="fsa%d" % len(net.tensors), noquant=True)
    net.inputs.append(a)
    y = net.act([1, 2, 2, 4], "float32", noquant=True)
    keep = net.cur
    net.op("SUB", [a, a], [y], ("SubOptions", dict(FusedActivationFunction=0, PotScaleInt16=pot)))
    net.cur = keep
    return True


inst("cpu_sub_nopot")(lambda n: _cpu_sub_f32(n, False))


@inst("lut_evict_chain")
def _lut_evict_chain(net):
    """three different 8-bit tables (TANH, LOGISTIC, HARD_SWISH), then a 16-bit table (int16 EXP, 2 KiB: it covers every 8-bit slot), then
    HARD_SWISH again with exactly the quantisation of the first one (the same table values)"""
    x = net.cur
    t = net.T(x)
    if t["dtype"] != "int8":
        return False
    shp = t["shape"]

    def un(op, q, opts=None, dt="int8"):
        y = net.act(shp, dt, q=q)
        net.op(op, [net.cur], [y], opts)

    qa = (0.0021, -100)
    un("TANH", (1 / 128, 0))
    un("LOGISTIC", (1 / 256, -128))
    un("HARD_SWISH", qa, ("HardSwishOptions", {}))
    un("QUANTIZE", (qa[0] / 64, 0), ("QuantizeOptions", {}), dt="int16")
    un("EXP", (1 / 8192, 0), ("ExpOptions", {}), dt="int16")
    un("QUANTIZE", (1 / 256, -128), ("QuantizeOptions", {}))
    un("HARD_SWISH", qa, ("HardSwishOptions", {}))
    return True


@inst("lut_same_over_ew")
def _lut_same_over_ew(net):
    """TANH, a table-less elementwise ADD back to the input quantisation, TANH with exactly the first table again, a table-less MUL, and the same
    TANH a third time: on parts without reserved table banks the elementwise operations in between use the banks the table lives in"""
    x = net.cur
    t = net.T(x)
    if t["dtype"] != "int8":
        return False
    shp = t["shape"]
    q0 = (net.scale(x), net.zp(x))

    def tanh():
        y = net.act(shp, "int8", q=(1 / 128, 0))
        net.op("TANH", [net.cur], [y], None)

    def ew(op, oname):
        a = net.cur
        y = net.act(shp, "int8", q=q0)
        net.op(op, [a, a], [y], (oname, dict(FusedActivationFunction=0)))

    tanh()
    ew("ADD", "AddOptions")
    tanh()
    ew("MUL", "MulOptions")
    tanh()
    return True


@inst("conv_then_c1")
def _conv_then_c1(net):
    """a 16-channel convolution followed by a 1-channel one: on a dual-core part the second operator has a weight stream for core 0 only,
    right after an operator that programmed both cores"""
    return _conv_like(net, "conv", 3, 1, PAD_SAME, "NONE", cout=16) and _conv_like(net, "conv", 3, 1, PAD_SAME, "NONE", cout=1)


@inst("fc_fc_sq")
def _fc_fc_sq(net):
    """FULLY_CONNECTED to 16 units followed by a square (16 -> 16) one: the weight matrix has the same shape before and after
    the [out,in] -> [in,out] reorder"""
    return _fc(net, 16) and _fc(net, 16)


@inst("fc_twins_batched")
def _fc_twins_batched(net):
    """the input reshaped to [H*W, C] (a batch of H*W rows) feeds TWO FULLY_CONNECTED operators that name the same weight tensor (own biases);
    the second one continues the chain, the first one stays a graph output"""
    t = net.T(net.cur)
    if t["dtype"] not in ("int8", "uint8", "int16") or len(t["shape"]) != 4 or t["shape"][0] != 1:
        return False
    n, h, w, c = t["shape"]
    rows = h * w
    if rows < 2 or rows * c > 4096:
        return False
    x = net.cur
    dt = t["dtype"]
    shp = net.const([2], "int32", "data", values=[rows, c])
    r = net.act([rows, c], dt, q=(net.scale(x), net.zp(x)))
    net.op("RESHAPE", [x, shp], [r], ("ReshapeOptions", dict(NewShape=[rows, c])))
    wdt = _wdtype(dt)
    wi = net.const([12, c], wdt, "weights", scale=[0.005], zp=0 if wdt == "int8" else 128)
    for _ in range(2):
        bi = net.const([12], "int32" if dt != "int16" else "int64", "bias", scale=[net.scale(r) * 0.005], zp=0)
        y = net.act([rows, 12], dt)
        net.op("FULLY_CONNECTED", [r, wi, bi], [y], ("FullyConnectedOptions", dict(FusedActivationFunction=0, WeightsFormat=0, KeepNumDims=False)))
    return True


@inst("conv_c3_sq")
def _conv_c3_sq(net):
    """convolution to 3 channels followed by a 3x3 convolution 3 -> 3: O == H == W == I, the kernel volume has the same shape in
    every axis order"""
    return _conv_like(net, "conv", 1, 1, PAD_SAME, "NONE", cout=3) and _conv_like(net, "conv", 3, 1, PAD_SAME, "NONE", cout=3)


def _pool(net, op, k, s, pad, act="NONE"):
    if not _hw4(net):
        return False
    x = net.cur
    n, h, w, c = net.T(x)["shape"]
    oh, ow = _out_hw(h, k, s, 1, pad), _out_hw(w, k, s, 1, pad)
    if oh <= 0 or ow <= 0:
        return False
    y = net.act([n, oh, ow, c], net.T(x)["dtype"], q=(net.scale(x), net.zp(x)))
    net.op(op, [x], [y], ("Pool2DOptions", dict(Padding=pad, StrideW=s, StrideH=s, FilterWidth=k, FilterHeight=k, FusedActivationFunction=ACT[act])))
    return True


inst("maxpool2x2", "c")(lambda n: _pool(n, "MAX_POOL_2D", 2, 2, PAD_VALID))
inst("avgpool2x2", "c")(lambda n: _pool(n, "AVERAGE_POOL_2D", 2, 2, PAD_VALID))
inst("avgpool3x3same", "c")(lambda n: _pool(n, "AVERAGE_POOL_2D", 3, 1, PAD_SAME))
inst("maxpool3x3s1same", "t")(lambda n: _pool(n, "MAX_POOL_2D", 3, 1, PAD_SAME))
inst("maxpool3x3s2_relu", "t")(lambda n: _pool(n, "MAX_POOL_2D", 3, 2, PAD_SAME, "RELU"))


def _binary(net, op, other, bshape=None, act="NONE"):
    x = net.cur
    t = net.T(x)
    if t["dtype"] not in ("int8", "uint8", "int16"):
        return False
    dt = t["dtype"]
    if other == "residual":
        cands = [i for i in net.open if i != x and net.T(i)["shape"] == t["shape"] and net.T(i)["dtype"] == dt]
        o = cands[-1] if cands else x
    elif other == "const":
        shp = t["shape"] if bshape is None else bshape(t["shape"])
        if shp is None:
            return False
        s, z = net.qparams(dt)
        o = net.const(shp, dt, "data", scale=[s], zp=z)
    y = net.act(t["shape"], dt)
    optname = {"ADD": "AddOptions", "SUB": "SubOptions", "MUL": "MulOptions", "MINIMUM": "MaximumMinimumOptions", "MAXIMUM": "MaximumMinimumOptions"}[op]
    opts = (optname, dict(FusedActivationFunction=ACT[act])) if op in ("ADD", "SUB", "MUL") else (optname, {})
    if op in ("MINIMUM", "MAXIMUM"):
        # TFLite requires equal quantisation for min/max
        net.T(y)["quant"] = dict(scale=[net.scale(x)], zp=[net.zp(x)])
        if other == "const":
            net.T(o)["quant"] = dict(scale=[net.scale(x)], zp=[net.zp(x)])
    net.op(op, [x, o], [y], opts)
    return True


inst("add_res")(lambda n: _binary(n, "ADD", "residual"))
inst("add_const", "c")(lambda n: _binary(n, "ADD", "const"))
inst("add_scalar")(lambda n: _binary(n, "ADD", "const", lambda s: [1] * len(s)))
inst("add_bcast_h")(lambda n: _binary(n, "ADD", "const", lambda s: [s[0], 1] + s[2:] if len(s) == 4 and s[1] > 1 else None))
inst("sub_const")(lambda n: _binary(n, "SUB", "const"))
inst("mul_const", "c")(lambda n: _binary(n, "MUL", "const"))
inst("min_const")(lambda n: _binary(n, "MINIMUM", "const"))
inst("max_const", "t")(lambda n: _binary(n, "MAXIMUM", "const"))
inst("add_relu", "t")(lambda n: _binary(n, "ADD", "const", act="RELU"))
inst("mul_res", "t")(lambda n: _binary(n, "MUL", "residual"))
inst("sub_bcast_c", "t")(lambda n: _binary(n, "SUB", "const", lambda s: [1] * (len(s) - 1) + [s[-1]]))


def _unary(net, op, opts=None, outq=None, dtypes=("int8", "uint8", "int16")):
    x = net.cur
    t = net.T(x)
    if t["dtype"] not in dtypes:
        return False
    q = None
    if outq == "same":
        q = (net.scale(x), net.zp(x))
    elif outq == "logistic":
        q = {"int8": (1 / 256, -128), "uint8": (1 / 256, 0), "int16": (1 / 32768, 0)}[t["dtype"]]
    elif outq == "tanh":
        q = {"int8": (1 / 128, 0), "uint8": (1 / 128, 128), "int16": (1 / 32768, 0)}[t["dtype"]]
    y = net.act(t["shape"], t["dtype"], q=q)
    net.op(op, [x], [y], opts)
    return True


inst("relu", "c")(lambda n: _unary(n, "RELU", None, "same"))
inst("relu6", "t")(lambda n: _unary(n, "RELU6", None, "same"))
inst("leaky_relu", "c")(lambda n: _unary(n, "LEAKY_RELU", ("LeakyReluOptions", dict(Alpha=0.1))))
inst("logistic", "c")(lambda n: _unary(n, "LOGISTIC", None, "logistic"))
inst("tanh", "c")(lambda n: _unary(n, "TANH", None, "tanh"))
inst("hard_swish")(lambda n: _unary(n, "HARD_SWISH", ("HardSwishOptions", {}), dtypes=("int8", "uint8")))
inst("quantize")(lambda n: _unary(n, "QUANTIZE", ("QuantizeOptions", {})))
def _coarse_then(net, op, outq, scale):
    """requantise to a very coarse scale (|x| up to ~127*scale), then a table-driven activation: the table generator is called far
    outside the range where the function is numerically comfortable"""
    x = net.cur
    t = net.T(x)
    if t["dtype"] not in ("int8", "uint8"):
        return False
    y = net.act(t["shape"], t["dtype"], q=(scale, 0 if t["dtype"] == "int8" else 255))
    net.op("QUANTIZE", [x], [y], ("QuantizeOptions", {}))
    return _unary(net, op, None, outq)


inst("logistic_coarse")(lambda n: _coarse_then(n, "LOGISTIC", "logistic", 6.0))
inst("tanh_coarse", "t")(lambda n: _coarse_then(n, "TANH", "tanh", 6.0))
inst("abs", "t")(lambda n: _unary(n, "ABS", ("AbsOptions", {}), "same"))
inst("rsqrt", "t")(lambda n: _unary(n, "RSQRT", None, dtypes=("int8",)))
inst("exp", "t")(lambda n: _unary(n, "EXP", ("ExpOptions", {}), dtypes=("int8",)))


@inst("prelu", "t")
def _prelu(net):
    x = net.cur
    t = net.T(x)
    if not _hw4(net) or t["dtype"] == "int16":
        return False
    a = net.const([1, 1, t["shape"][-1]], t["dtype"], "data", scale=[0.01], zp=0 if t["dtype"] == "int8" else 128)
    y = net.act(t["shape"], t["dtype"])
    net.op("PRELU", [x, a], [y], None)
    return True


@inst("softmax")
def _softmax(net):
    x = net.cur
    t = net.T(x)
    if t["dtype"] not in ("int8", "uint8", "int16") or not t["shape"]:
        return False
    q = {"int8": (1 / 256, -128), "uint8": (1 / 256, 0), "int16": (1 / 32768, 0)}[t["dtype"]]
    y = net.act(t["shape"], t["dtype"], q=q)
    net.op("SOFTMAX", [x], [y], ("SoftmaxOptions", dict(Beta=1.0)))
    return True


@inst("reshape")
def _reshape(net):
    x = net.cur
    t = net.T(x)
    s = t["shape"]
    if len(s) == 4:
        new = [s[0], s[1] * s[2], 1, s[3]]
    elif len(s) == 2:
        new = [s[0], 1, 1, s[1]]
    else:
        return False
    shp = net.const([len(new)], "int32", "data", values=new)
    y = net.act(new, t["dtype"], q=(net.scale(x), net.zp(x)) if t["quant"] else None, noquant=t["quant"] is None)
    net.op("RESHAPE", [x, shp], [y], ("ReshapeOptions", dict(NewShape=new)))
    return True


def _wide_reshape_between(net, cout):
    """conv1x1 to `cout` channels -> RESHAPE that keeps the depth and changes the width -> RELU: a reshaped tensor with more than 16
    channels that is produced and consumed on the NPU (brick format is only legal if both sides see the same shape)"""
    if not _hw4(net):
        return False
    n, h, w, c = net.T(net.cur)["shape"]
    if w % 2 or h * w > 1024:
        return False
    if not _conv_like(net, "conv", 1, 1, PAD_SAME, "NONE", cout=cout):
        return False
    x = net.cur
    t = net.T(x)
    new = [n, h * 2, w // 2, cout]
    shp = net.const([4], "int32", "data", values=new)
    y = net.act(new, t["dtype"], q=(net.scale(x), net.zp(x)))
    net.op("RESHAPE", [x, shp], [y], ("ReshapeOptions", dict(NewShape=new)))
    return _unary(net, "RELU", None, "same")


inst("c24_reshape_w_relu")(lambda n: _wide_reshape_between(n, 24))
inst("c32_reshape_w_relu", "t")(lambda n: _wide_reshape_between(n, 32))


@inst("reshape_requant")
def _reshape_requant(net):
    """RESHAPE whose output quantisation differs from its input: not accepted for the NPU, so it stays a CPU operator next to accelerated ones"""
    x = net.cur
    t = net.T(x)
    s = t["shape"]
    if len(s) != 4 or t["dtype"] not in ("int8", "uint8", "int16"):
        return False
    new = [s[0], s[1] * s[2], 1, s[3]]
    shp = net.const([4], "int32", "data", values=new)
    y = net.act(new, t["dtype"], q=(net.scale(x) * 2.0, net.zp(x)))
    net.op("RESHAPE", [x, shp], [y], ("ReshapeOptions", dict(NewShape=new)))
    return True


@inst("concat")
def _concat(net):
    x = net.cur
    t = net.T(x)
    if not _hw4(net):
        return False
    # TFLite requires identical quantisation of all int8/int16 concatenation operands and the result
    cands = [i for i in net.open if i != x and net.T(i)["shape"][:3] == t["shape"][:3] and net.T(i)["dtype"] == t["dtype"] and len(net.T(i)["shape"]) == 4
             and net.T(i)["quant"] == t["quant"]]
    o = cands[-1] if cands else x
    cs = t["shape"][3] + net.T(o)["shape"][3]
    y = net.act(t["shape"][:3] + [cs], t["dtype"], q=(net.scale(x), net.zp(x)))
    net.op("CONCATENATION", [o, x], [y], ("ConcatenationOptions", dict(Axis=3, FusedActivationFunction=0)))
    return True


@inst("concat_h", "t")
def _concat_h(net):
    x = net.cur
    t = net.T(x)
    if not _hw4(net):
        return False
    y = net.act([t["shape"][0], 2 * t["shape"][1]] + t["shape"][2:], t["dtype"], q=(net.scale(x), net.zp(x)))
    net.op("CONCATENATION", [x, x], [y], ("ConcatenationOptions", dict(Axis=1, FusedActivationFunction=0)))
    return True


@inst("split")
def _split(net):
    x = net.cur
    t = net.T(x)
    if not _hw4(net) or t["shape"][3] % 2:
        return False
    ax = net.const([], "int32", "data", values=3)
    h = t["shape"][:3] + [t["shape"][3] // 2]
    y0 = net.act(h, t["dtype"], q=(net.scale(x), net.zp(x)))
    y1 = net.act(h, t["dtype"], q=(net.scale(x), net.zp(x)))
    net.op("SPLIT", [ax, x], [y0, y1], ("SplitOptions", dict(NumSplits=2)))
    return True


@inst("split1", "t")
def _split1(net):
    """SPLIT into one part: a no-op the compiler removes"""
    x = net.cur
    t = net.T(x)
    if not _hw4(net):
        return False
    ax = net.const([], "int32", "data", values=3)
    y0 = net.act(list(t["shape"]), t["dtype"], q=(net.scale(x), net.zp(x)))
    net.op("SPLIT", [ax, x], [y0], ("SplitOptions", dict(NumSplits=1)))
    return True


@inst("split_w", "t")
def _split_w(net):
    x = net.cur
    t = net.T(x)
    if not _hw4(net) or t["shape"][2] % 2:
        return False
    ax = net.const([], "int32", "data", values=2)
    h = t["shape"][:2] + [t["shape"][2] // 2, t["shape"][3]]
    y0 = net.act(h, t["dtype"], q=(net.scale(x), net.zp(x)))
    y1 = net.act(h, t["dtype"], q=(net.scale(x), net.zp(x)))
    net.op("SPLIT", [ax, x], [y0, y1], ("SplitOptions", dict(NumSplits=2)))
    net.cur = y1
    return True


@inst("strided_slice")
def _sslice(net):
    x = net.cur
    t = net.T(x)
    if not _hw4(net) or t["shape"][1] < 3 or t["shape"][2] < 2:
        return False
    n, h, w, c = t["shape"]
    begin, end = [0, 1, 0, 0], [n, h - 1, w - 1, c]
    b = net.const([4], "int32", "data", values=begin)
    e = net.const([4], "int32", "data", values=end)
    s = net.const([4], "int32", "data", values=[1, 1, 1, 1])
    y = net.act([n, h - 2, w - 1, c], t["dtype"], q=(net.scale(x), net.zp(x)))
    net.op("STRIDED_SLICE", [x, b, e, s], [y], ("StridedSliceOptions", dict(BeginMask=0, EndMask=0, EllipsisMask=0, NewAxisMask=0, ShrinkAxisMask=0)))
    return True


@inst("slice", "t")
def _slice(net):
    x = net.cur
    t = net.T(x)
    if not _hw4(net) or t["shape"][2] < 2:
        return False
    n, h, w, c = t["shape"]
    b = net.const([4], "int32", "data", values=[0, 0, 1, 0])
    sz = net.const([4], "int32", "data", values=[n, h, w - 1, c])
    y = net.act([n, h, w - 1, c], t["dtype"], q=(net.scale(x), net.zp(x)))
    net.op("SLICE", [x, b, sz], [y], ("SliceOptions", {}))
    return True


def _pad(net, pads):
    x = net.cur
    t = net.T(x)
    if not _hw4(net):
        return False
    p = net.const([4, 2], "int32", "data", values=pads)
    new = [d + a + b for d, (a, b) in zip(t["shape"], pads)]
    y = net.act(new, t["dtype"], q=(net.scale(x), net.zp(x)))
    net.op("PAD", [x, p], [y], ("PadOptions", {}))
    return True


inst("pad_hw")(lambda n: _pad(n, [[0, 0], [1, 1], [1, 1], [0, 0]]))
inst("pad_c")(lambda n: _pad(n, [[0, 0], [0, 0], [0, 0], [0, 3]]))
inst("pad_nc", "t")(lambda n: _pad(n, [[1, 1], [0, 0], [0, 0], [2, 2]]))
inst("pad_hw_asym", "t")(lambda n: _pad(n, [[0, 0], [0, 1], [0, 1], [0, 0]]))


@inst("mean")
def _mean(net):
    x = net.cur
    t = net.T(x)
    if not _hw4(net):
        return False
    ax = net.const([2], "int32", "data", values=[1, 2])
    y = net.act([t["shape"][0], 1, 1, t["shape"][3]], t["dtype"])
    net.op("MEAN", [x, ax], [y], ("ReducerOptions", dict(KeepDims=True)))
    return True


def _mean_ax(net, axes, keep=True):
    x = net.cur
    t = net.T(x)
    if not _hw4(net):
        return False
    ax = net.const([len(axes)], "int32", "data", values=list(axes))
    shp = [1 if i in axes else d for i, d in enumerate(t["shape"])] if keep else [d for i, d in enumerate(t["shape"]) if i not in axes]
    y = net.act(shp, t["dtype"])
    net.op("MEAN", [x, ax], [y], ("ReducerOptions", dict(KeepDims=keep)))
    return True


inst("mean_h", "t")(lambda n: _mean_ax(n, [1]))
inst("mean_w_drop", "t")(lambda n: _mean_ax(n, [2], keep=False))
inst("mean_batch1", "t")(lambda n: _mean_ax(n, [0]) if n.T(n.cur)["shape"][0] == 1 else False)


def _argmax(net, out="int32"):
    x = net.cur
    t = net.T(x)
    if not _hw4(net) or t["dtype"] == "int16" or t["shape"][3] > 127:
        return False
    ax = net.const([], "int32", "data", values=3)
    y = net.act(t["shape"][:3], out, noquant=True)
    net.op("ARG_MAX", [x, ax], [y], ("ArgMaxOptions", dict(OutputType=2 if out == "int32" else 4)))
    return True


inst("argmax", "t")(_argmax)
inst("argmax64", "t")(lambda n: _argmax(n, "int64"))


def _resize(net, op, factor=2, align=False, half=False):
    x = net.cur
    t = net.T(x)
    if not _hw4(net) or t["shape"][1] * factor > 64:
        return False
    n, h, w, c = t["shape"]
    oh, ow = (h * factor, w * factor) if not align else ((h - 1) * factor + 1, (w - 1) * factor + 1)
    sz = net.const([2], "int32", "data", values=[oh, ow])
    y = net.act([n, oh, ow, c], t["dtype"], q=(net.scale(x), net.zp(x)))
    if op == "RESIZE_NEAREST_NEIGHBOR":
        opts = ("ResizeNearestNeighborOptions", dict(AlignCorners=align, HalfPixelCenters=half))
    else:
        opts = ("ResizeBilinearOptions", dict(AlignCorners=align, HalfPixelCenters=half))
    net.op(op, [x, sz], [y], opts)
    return True


inst("resize_nn2")(lambda n: _resize(n, "RESIZE_NEAREST_NEIGHBOR"))
inst("resize_nn2_ac", "t")(lambda n: _resize(n, "RESIZE_NEAREST_NEIGHBOR", align=True))
inst("resize_nn4_ac", "t")(lambda n: _resize(n, "RESIZE_NEAREST_NEIGHBOR", factor=4, align=True))
inst("resize_nn2_hp", "t")(lambda n: _resize(n, "RESIZE_NEAREST_NEIGHBOR", half=True))
inst("resize_bl2", "t")(lambda n: _resize(n, "RESIZE_BILINEAR"))
inst("resize_bl2_ac", "t")(lambda n: _resize(n, "RESIZE_BILINEAR", align=True))
inst("resize_bl2_hp", "t")(lambda n: _resize(n, "RESIZE_BILINEAR", half=True))


@inst("tconv_s2")
def _tconv(net):
    x = net.cur
    t = net.T(x)
    if not _hw4(net) or t["shape"][1] > 32:
        return False
    n, h, w, c = t["shape"]
    cout = 8
    dt = t["dtype"]
    wdt = _wdtype(dt)
    wi = net.const([cout, 3, 3, c], wdt, "weights", scale=[0.004], zp=0 if wdt == "int8" else 128)
    osh = net.const([4], "int32", "data", values=[n, 2 * h, 2 * w, cout])
    bi = net.const([cout], "int32" if dt != "int16" else "int64", "bias", scale=[net.scale(x) * 0.004], zp=0)
    y = net.act([n, 2 * h, 2 * w, cout], dt)
    net.op("TRANSPOSE_CONV", [osh, wi, x, bi], [y], ("TransposeConvOptions", dict(Padding=PAD_SAME, StrideW=2, StrideH=2)), version=3)
    return True


@inst("transpose", "t")
def _transpose(net):
    x = net.cur
    t = net.T(x)
    if not _hw4(net):
        return False
    n, h, w, c = t["shape"]
    perm = net.const([4], "int32", "data", values=[0, 2, 1, 3])
    y = net.act([n, w, h, c], t["dtype"], q=(net.scale(x), net.zp(x)))
    net.op("TRANSPOSE", [x, perm], [y], ("TransposeOptions", {}))
    return True


@inst("squeeze_expand", "t")
def _sq(net):
    x = net.cur
    t = net.T(x)
    if not _hw4(net) or t["shape"][2] != 1 and t["shape"][1] != 1:
        return False
    ax = 1 if t["shape"][1] == 1 else 2
    new = [d for i, d in enumerate(t["shape"]) if i != ax]
    y = net.act(new, t["dtype"], q=(net.scale(x), net.zp(x)))
    net.op("SQUEEZE", [x], [y], ("SqueezeOptions", dict(SqueezeDims=[ax])))
    return True


def _cpu_squeeze(net, dims):
    """a float32 side branch (own network input and output) with a SQUEEZE that stays on the CPU; squeeze_dims = dims (all-zero vectors are
    legal option values: [0] squeezes the batch axis)"""
    shape = [1, 1, 3, 4]
    x = net.act(shape, "float32", name="fin%d" % len(net.tensors), noquant=True)
    net.inputs.append(x)
    new = [d for i, d in enumerate(shape) if i not in dims]
    y = net.act(new, "float32", noquant=True)
    keep = net.cur
    net.op("SQUEEZE", [x], [y], ("SqueezeOptions", dict(SqueezeDims=list(dims))))
    net.cur = keep
    return True


inst("cpu_squeeze0")(lambda n: _cpu_squeeze(n, [0]))
inst("cpu_squeeze01", "t")(lambda n: _cpu_squeeze(n, [0, 1]))


# CPU-only steps -------------------------------------------------------------------------------
@inst("cpu_d2s")
def _d2s(net):
    x = net.cur
    t = net.T(x)
    if not _hw4(net) or t["shape"][3] % 4 or t["shape"][1] > 32:
        return False
    n, h, w, c = t["shape"]
    y = net.act([n, 2 * h, 2 * w, c // 4], t["dtype"], q=(net.scale(x), net.zp(x)))
    net.op("DEPTH_TO_SPACE", [x], [y], ("DepthToSpaceOptions", dict(BlockSize=2)))
    return True


@inst("cpu_neg")
def _neg(net):
    # NEG is not in Vela's supported list: stays on the CPU for every input
    return _unary(net, "NEG", ("NegOptions", {}), None)


@inst("cpu_custom")
def _custom(net):
    x = net.cur
    t = net.T(x)
    y = net.act(t["shape"], t["dtype"], q=(net.scale(x), net.zp(x)) if t["quant"] else None, noquant=t["quant"] is None)
    net.op(("CUSTOM", "ThirdPartyOp"), [x], [y], None, custom=b"\x01\x02opaque\x00\xff")
    return True


@inst("tap")
def _tap(net):
    """the current (intermediate) tensor additionally becomes a graph output; the chain continues from it"""
    if net.cur in net.inputs or net.cur in net.taps:
        return False
    net.taps.append(net.cur)
    return True


@inst("branch_cpu")
def _branch_cpu(net):
    """a CPU-only consumer (NEG) branches off the current tensor; the chain continues from the current tensor"""
    x = net.cur
    t = net.T(x)
    if t["dtype"] not in ("int8", "uint8", "int16") or x in net.inputs:
        return False
    y = net.act(t["shape"], t["dtype"])
    net.op("NEG", [x], [y], ("NegOptions", {}))
    net.cur = x
    return True


@inst("branch_npu")
def _branch_npu(net):
    """an NPU consumer (RELU) branches off the current tensor; the chain continues from the current tensor"""
    x = net.cur
    t = net.T(x)
    if t["dtype"] not in ("int8", "uint8", "int16") or x in net.inputs:
        return False
    y = net.act(t["shape"], t["dtype"], q=(net.scale(x), net.zp(x)))
    net.op("RELU", [x], [y], None)
    net.cur = x
    return True


def _fanout_reshape(net, cout):
    """a 1x1 convolution to `cout` channels whose result is read by a RELU (own shape) AND by a RESHAPE that cannot be bypassed (the tensor has a
    second consumer, so the reshape becomes a copy); the chain continues behind the RESHAPE"""
    if not _hw4(net) or net.T(net.cur)["dtype"] not in ("int8", "uint8", "int16"):
        return False
    if not _conv_like(net, "conv", 1, 1, PAD_SAME, "NONE", cout=cout):
        return False
    x = net.cur
    t = net.T(x)
    y = net.act(t["shape"], t["dtype"], q=(net.scale(x), net.zp(x)))
    net.op("RELU", [x], [y], None)
    net.cur = x
    return _reshape(net)


inst("fanout_reshape_c24")(lambda n: _fanout_reshape(n, 24))
inst("fanout_reshape_c32")(lambda n: _fanout_reshape(n, 32))


@inst("cpu_custom_opt")
def _custom_opt(net):
    """third-party custom op whose middle operand is omitted (-1) and whose last operand is a constant"""
    x = net.cur
    t = net.T(x)
    c = net.const([4], "int8", "data", scale=[0.5], zp=0)
    y = net.act(t["shape"], t["dtype"], q=(net.scale(x), net.zp(x)) if t["quant"] else None, noquant=t["quant"] is None)
    net.op(("CUSTOM", "ThirdPartyGate"), [x, -1, c], [y], None, custom=b"gate\x00\x01")
    return True


# rarely used operators (level `rareops`) -------------------------------------------------------
def _sqdiff(net, other):
    x = net.cur
    t = net.T(x)
    if t["dtype"] not in ("int8", "int16") or not t["shape"]:
        return False
    dt = t["dtype"]
    if other == "res":
        cands = [i for i in net.open if i != x and net.T(i)["shape"] == t["shape"] and net.T(i)["dtype"] == dt]
        o = cands[-1] if cands else x
    else:
        shp = t["shape"] if other == "const" else [1] * (len(t["shape"]) - 1) + [t["shape"][-1]]
        s, z = net.qparams(dt)
        o = net.const(shp, dt, "data", scale=[s], zp=z)
    y = net.act(t["shape"], dt, q=(net.scale(x) * 4.0, -128 if dt == "int8" else 0))
    net.op("SQUARED_DIFFERENCE", [x, o], [y], ("SquaredDifferenceOptions", {}))
    return True


inst("sqdiff_const", "r")(lambda n: _sqdiff(n, "const"))
inst("sqdiff_res", "r")(lambda n: _sqdiff(n, "res"))
inst("sqdiff_bcast_c", "r")(lambda n: _sqdiff(n, "bc"))


def _to_rank3(net):
    """RESHAPE [1,h,w,c] -> [h,w,c]"""
    x = net.cur
    t = net.T(x)
    if not _hw4(net) or t["shape"][0] != 1:
        return False
    new = t["shape"][1:]
    shp = net.const([3], "int32", "data", values=new)
    y = net.act(new, t["dtype"], q=(net.scale(x), net.zp(x)))
    net.op("RESHAPE", [x, shp], [y], ("ReshapeOptions", dict(NewShape=new)))
    return True


def _pack(net, axis, rank3):
    """PACK of the current tensor with a second operand (another open tensor of the same shape and quantisation, else a constant)"""
    if rank3 and not _to_rank3(net):
        return False
    x = net.cur
    t = net.T(x)
    if t["dtype"] not in ("int8", "uint8", "int16") or len(t["shape"]) + 1 > 4 or axis > len(t["shape"]):
        return False
    cands = [i for i in net.open if i != x and net.T(i)["shape"] == t["shape"] and net.T(i)["dtype"] == t["dtype"] and net.T(i)["quant"] == t["quant"]]
    o = cands[-1] if cands else net.const(t["shape"], t["dtype"], "data", scale=[net.scale(x)], zp=net.zp(x))
    new = t["shape"][:axis] + [2] + t["shape"][axis:]
    y = net.act(new, t["dtype"], q=(net.scale(x), net.zp(x)))
    net.op("PACK", [x, o], [y], ("PackOptions", dict(ValuesCount=2, Axis=axis)))
    return True


def _pack2(net, axis):
    """PACK of rank-2 values [h*w, c] (the current tensor flattened) along `axis` (negative axes count from the end of the RESULT's dimensions)"""
    x = net.cur
    t = net.T(x)
    if not _hw4(net) or t["shape"][0] != 1 or t["shape"][1] * t["shape"][2] > 64:
        return False
    new = [t["shape"][1] * t["shape"][2], t["shape"][3]]
    shp = net.const([2], "int32", "data", values=new)
    y2 = net.act(new, t["dtype"], q=(net.scale(x), net.zp(x)))
    net.op("RESHAPE", [x, shp], [y2], ("ReshapeOptions", dict(NewShape=new)))
    o = net.const(new, t["dtype"], "data", scale=[net.scale(x)], zp=net.zp(x))
    pos = axis if axis >= 0 else 3 + axis
    out = new[:pos] + [2] + new[pos:]
    y = net.act(out, t["dtype"], q=(net.scale(x), net.zp(x)))
    net.op("PACK", [y2, o], [y], ("PackOptions", dict(ValuesCount=2, Axis=axis)))
    return True


inst("pack2_am1", "r")(lambda n: _pack2(n, -1))
inst("pack2_am2", "r")(lambda n: _pack2(n, -2))
inst("pack2_a1", "r")(lambda n: _pack2(n, 1))
inst("pack_a0", "r")(lambda n: _pack(n, 0, True))
inst("pack_a1", "r")(lambda n: _pack(n, 1, True))
inst("pack_a3", "r")(lambda n: _pack(n, 3, True))


def _unpack(net, axis):
    x = net.cur
    t = net.T(x)
    if not _hw4(net) or t["shape"][axis] > 8:
        return False
    num = t["shape"][axis]
    new = [d for i, d in enumerate(t["shape"]) if i != axis]
    ys = [net.act(new, t["dtype"], q=(net.scale(x), net.zp(x))) for _ in range(num)]
    net.op("UNPACK", [x], ys, ("UnpackOptions", dict(Num=num, Axis=axis)))
    net.cur = ys[-1]
    return True


inst("unpack_a0", "r")(lambda n: _unpack(n, 0))
inst("unpack_a1", "r")(lambda n: _unpack(n, 1))
inst("unpack_a3", "r")(lambda n: _unpack(n, 3))


def _split_v(net, axis, minus1):
    x = net.cur
    t = net.T(x)
    if not _hw4(net) or t["shape"][axis] < 3:
        return False
    d = t["shape"][axis]
    sizes = [1, d - 3, 2] if d > 3 else [1, 2]
    vals = list(sizes)
    if minus1:
        vals[1] = -1
    sz = net.const([len(sizes)], "int32", "data", values=vals)
    ax = net.const([], "int32", "data", values=axis)
    ys = [net.act([s_ if i == axis else v for i, v in enumerate(t["shape"])], t["dtype"], q=(net.scale(x), net.zp(x))) for s_ in sizes]
    net.op("SPLIT_V", [x, sz, ax], ys, ("SplitVOptions", dict(NumSplits=len(sizes))))
    net.cur = ys[1]
    return True


inst("splitv_c", "r")(lambda n: _split_v(n, 3, False))
inst("splitv_c_m1", "r")(lambda n: _split_v(n, 3, True))
inst("splitv_h", "r")(lambda n: _split_v(n, 1, False))
inst("splitv_w_m1", "r")(lambda n: _split_v(n, 2, True))


@inst("shape", "r")
def _shape(net):
    """SHAPE of the current tensor as an additional network output; the chain continues from the current tensor"""
    x = net.cur
    t = net.T(x)
    if t["dtype"] not in ("int8", "uint8", "int16") or not t["shape"]:
        return False
    y = net.act([len(t["shape"])], "int32", noquant=True)
    net.op("SHAPE", [x], [y], ("ShapeOptions", dict(OutType=2)))
    net.cur = x
    return True


@inst("expand_dims", "r")
def _expand_dims(net):
    x = net.cur
    t = net.T(x)
    if t["dtype"] not in ("int8", "uint8", "int16") or len(t["shape"]) != 4 or t["shape"][0] != 1:
        return False
    if not _to_rank3(net):
        return False
    x = net.cur
    t = net.T(x)
    ax = net.const([], "int32", "data", values=2)
    new = t["shape"][:2] + [1] + t["shape"][2:]
    y = net.act(new, t["dtype"], q=(net.scale(x), net.zp(x)))
    net.op("EXPAND_DIMS", [x, ax], [y], ("ExpandDimsOptions", {}))
    return True


inst("log", "r")(lambda n: _unary(n, "LOG", None, dtypes=("int8", "int16")))
inst("sqrt", "r")(lambda n: _unary(n, "SQRT", None, dtypes=("int8", "int16")))
inst("gelu", "r")(lambda n: _unary(n, "GELU", ("GeluOptions", dict(Approximate=False)), dtypes=("int8", "int16")))
inst("gelu_tanh", "r")(lambda n: _unary(n, "GELU", ("GeluOptions", dict(Approximate=True)), dtypes=("int8",)))
inst("exp16", "r")(lambda n: _unary(n, "EXP", ("ExpOptions", {}), dtypes=("int16",)))


def _prelu_shape(net, ashape):
    x = net.cur
    t = net.T(x)
    if not _hw4(net) or t["dtype"] == "int16":
        return False
    shp = ashape(t["shape"])
    a = net.const(shp, t["dtype"], "data", scale=[0.02], zp=0 if t["dtype"] == "int8" else 128)
    y = net.act(t["shape"], t["dtype"])
    net.op("PRELU", [x, a], [y], None)
    return True


inst("prelu_full", "r")(lambda n: _prelu_shape(n, lambda s: s[1:]))
inst("prelu_c", "r")(lambda n: _prelu_shape(n, lambda s: [1, 1, s[3]]))


def _lstm(net, time_major, n_cell=8, allow_batch=False):
    """UNIDIRECTIONAL_SEQUENCE_LSTM (int8 activations, int16 cell state, no CIFG / peephole / projection / layer norm) on [batch, time, feature]"""
    x = net.cur
    t = net.T(x)
    if not _hw4(net) or t["dtype"] != "int8" or t["shape"][0] != 1 or t["shape"][1] * t["shape"][2] > 16:
        return False
    n, h, w, c = t["shape"]
    if not time_major and h != 1 and not allow_batch:
        # batch-major with several batches reads the cell state of batch >= 1 outside its tensor (open finding, see known_findings.jsonl):
        # instance `lstm` is restricted to one batch, `lstm_b` keeps the failing geometry for the thorough tier
        return False
    new = [h, w, c]  # h = batch (or time when time-major), w = time (or batch)
    shp = net.const([3], "int32", "data", values=new)
    x3 = net.act(new, "int8", q=(net.scale(x), net.zp(x)))
    net.op("RESHAPE", [x, shp], [x3], ("ReshapeOptions", dict(NewShape=new)))
    n_batch = w if time_major else h
    ws = 0.01
    ins = [x3]
    ins += [net.const([n_cell, c], "int8", "weights", scale=[ws], zp=0) for _ in range(4)]        # input-to-{input,forget,cell,output}
    ins += [net.const([n_cell, n_cell], "int8", "weights", scale=[ws], zp=0) for _ in range(4)]   # recurrent
    ins += [-1, -1, -1]                                                                           # peephole
    ins += [net.const([n_cell], "int32", "bias", scale=[ws * net.scale(x)], zp=0) for _ in range(4)]  # gate biases
    ins += [-1, -1]                                                                               # projection
    out_state = net.act([n_batch, n_cell], "int8", q=(1 / 128, 0))
    cell_state = net.act([n_batch, n_cell], "int16", q=(2.0 ** -11, 0))
    for s_ in (out_state, cell_state):
        net.T(s_)["is_variable"] = True
        net.open.remove(s_) if s_ in net.open else None
    ins += [out_state, cell_state]
    ins += [-1, -1, -1, -1]                                                                       # layer norm
    inter = [net.act([n_batch, n_cell], "int16", q=(2.0 ** -12, 0)) for _ in range(4)] + [net.act([n_batch, n_cell], "int8", q=(2.0 ** -7, 0))]
    for s_ in inter + [out_state, cell_state]:
        if s_ in net.open:
            net.open.remove(s_)
    y = net.act([h, w, n_cell], "int8", q=(1 / 128, 0))
    net.op("UNIDIRECTIONAL_SEQUENCE_LSTM", ins, [y], ("UnidirectionalSequenceLSTMOptions", dict(FusedActivationFunction=ACT["TANH"], CellClip=10.0, ProjClip=0.0, TimeMajor=time_major, AsymmetricQuantizeInputs=False)))
    net.ops[-1]["intermediates"] = inter
    return True


inst("lstm", "r")(lambda n: _lstm(n, False))
inst("lstm_tm", "r")(lambda n: _lstm(n, True))
inst("lstm_b", "B")(lambda n: _lstm(n, False, allow_batch=True))

SIGMA_R = [n for n, (_, tags) in INSTANCES.items() if "r" in tags]

SIGMA_Q = [
    "conv1x1", "conv3x3", "conv3x3s2", "conv3x3v_relu6", "conv3x3d2", "dw3x3", "dw3x3s2", "fc", "maxpool2x2",
    "avgpool2x2", "avgpool3x3same", "add_res", "add_const", "add_scalar", "add_bcast_h", "sub_const", "mul_const",
    "min_const", "relu", "leaky_relu", "logistic", "tanh", "hard_swish", "reshape", "concat", "split", "strided_slice",
    "pad_hw", "pad_c", "mean", "resize_nn2", "quantize", "tconv_s2", "softmax", "cpu_d2s", "cpu_custom", "conv_dynw", "cpu_neg", "tap", "branch_cpu", "branch_npu", "conv_dynw_nobias", "cpu_custom_opt", "conv3x3_c1", "slice", "conv_again", "conv_pair_shared", "reshape_requant", "fc_fc_sq", "conv_c3_sq", "cpu_conv_s4", "cpu_conv_s4_pair", "logistic_coarse", "c24_reshape_w_relu", "conv_then_c1", "cpu_squeeze0", "late_cpu_reader", "skip_over_cpu", "cpu_sub_nopot", "lut_evict_chain", "lut_same_over_ew", "fanout_reshape_c24", "fanout_reshape_c32", "conv3x3_g2", "conv3x3_g2_pc", "conv1x1_g4", "fc_twins_batched",
]
SIGMA_T = SIGMA_Q + [n for n, (_, tags) in INSTANCES.items() if "t" in tags]
SIGMA_C = [n for n, (_, tags) in INSTANCES.items() if "c" in tags]

STARTS_Q = [((1, 8, 8, 8), "int8"), ((1, 16, 16, 16), "int8"), ((1, 7, 33, 3), "uint8"), ((1, 16, 16, 8), "int16")]
STARTS_T = STARTS_Q + [((1, 1, 1, 32), "int8"), ((1, 2, 2, 17), "int8"), ((1, 33, 7, 40), "int8"), ((1, 16, 16, 1), "uint8"),
                       ((1, 8, 8, 32), "uint8"), ((1, 33, 33, 8), "int16"), ((2, 8, 8, 8), "int8"), ((1, 32, 32, 16), "int8")]


def _conv_geom(net, kind, kh, kw, sh, sw, pad, cout):
    """convolution with an arbitrary kernel / stride geometry (rectangular kernels, strides beyond 3)"""
    if not _hw4(net):
        return False
    x = net.cur
    t = net.T(x)
    n, h, w, c = t["shape"]
    oh, ow = _out_hw(h, kh, sh, 1, pad), _out_hw(w, kw, sw, 1, pad)
    if oh <= 0 or ow <= 0:
        return False
    dt = t["dtype"]
    wdt = _wdtype(dt)
    if kind == "conv":
        wshape = [cout, kh, kw, c]
    else:
        cout = c
        wshape = [1, kh, kw, c]
    wi = net.const(wshape, wdt, "weights", scale=[0.004], zp=0 if wdt == "int8" else 121)
    bi = net.const([cout], "int32" if dt != "int16" else "int64", "bias", scale=[net.scale(x) * 0.004], zp=0)
    y = net.act([n, oh, ow, cout], dt)
    if kind == "conv":
        net.op("CONV_2D", [x, wi, bi], [y], ("Conv2DOptions", dict(Padding=pad, StrideW=sw, StrideH=sh, FusedActivationFunction=0, DilationWFactor=1, DilationHFactor=1)))
    else:
        net.op("DEPTHWISE_CONV_2D", [x, wi, bi], [y], ("DepthwiseConv2DOptions", dict(Padding=pad, StrideW=sw, StrideH=sh, DepthMultiplier=1, FusedActivationFunction=0, DilationWFactor=1, DilationHFactor=1)))
    return True


def _pool_geom(net, op, kh, kw, sh, sw, pad):
    if not _hw4(net):
        return False
    x = net.cur
    n, h, w, c = net.T(x)["shape"]
    oh, ow = _out_hw(h, kh, sh, 1, pad), _out_hw(w, kw, sw, 1, pad)
    if oh <= 0 or ow <= 0:
        return False
    y = net.act([n, oh, ow, c], net.T(x)["dtype"], q=(net.scale(x), net.zp(x)))
    net.op(op, [x], [y], ("Pool2DOptions", dict(Padding=pad, StrideW=sw, StrideH=sh, FilterWidth=kw, FilterHeight=kh, FusedActivationFunction=0)))
    return True


def param_instance(name):
    """parametrised instances, written so that the name is its own description:
       convg.k<kh>x<kw>.s<sh>x<sw>.<S|V>.c<cout>   dwg.k..s..<S|V>   maxg.k..s..<S|V>   avgg.k..s..<S|V>"""
    parts = name.split(".")
    kind = parts[0]
    kh, kw = map(int, parts[1][1:].split("x"))
    sh, sw = map(int, parts[2][1:].split("x"))
    pad = PAD_SAME if parts[3] == "S" else PAD_VALID
    if kind == "convg":
        cout = int(parts[4][1:])
        return lambda n: _conv_geom(n, "conv", kh, kw, sh, sw, pad, cout)
    if kind == "dwg":
        return lambda n: _conv_geom(n, "dw", kh, kw, sh, sw, pad, None)
    if kind == "maxg":
        return lambda n: _pool_geom(n, "MAX_POOL_2D", kh, kw, sh, sw, pad)
    if kind == "avgg":
        return lambda n: _pool_geom(n, "AVERAGE_POOL_2D", kh, kw, sh, sw, pad)
    raise KeyError(name)


def _ew_geom(net, op, code, const_first):
    """binary elementwise operator with a constant second operand of broadcast shape `code`:
       f full, c [1,1,1,C], w [1,1,W,1], h [1,H,1,1], hw [1,H,W,1], o [1,1,1,1], s scalar []; const_first swaps the operands"""
    x = net.cur
    t = net.T(x)
    if not _hw4(net) or t["dtype"] not in ("int8", "uint8", "int16"):
        return False
    n, h, w, c = t["shape"]
    shp = {"f": [n, h, w, c], "c": [1, 1, 1, c], "w": [1, 1, w, 1], "h": [1, h, 1, 1], "hw": [1, h, w, 1], "o": [1, 1, 1, 1], "s": []}[code]
    dt = t["dtype"]
    sc, z = net.qparams(dt)
    o = net.const(shp, dt, "data", scale=[sc], zp=z)
    y = net.act(t["shape"], dt)
    optname = {"ADD": "AddOptions", "SUB": "SubOptions", "MUL": "MulOptions", "MINIMUM": "MaximumMinimumOptions", "MAXIMUM": "MaximumMinimumOptions"}[op]
    opts = (optname, dict(FusedActivationFunction=0)) if op in ("ADD", "SUB", "MUL") else (optname, {})
    if op in ("MINIMUM", "MAXIMUM"):
        net.T(y)["quant"] = dict(scale=[net.scale(x)], zp=[net.zp(x)])
        net.T(o)["quant"] = dict(scale=[net.scale(x)], zp=[net.zp(x)])
    net.op(op, [o, x] if const_first else [x, o], [y], opts)
    return True


def _tconv_geom(net, k, s, pad):
    x = net.cur
    t = net.T(x)
    if not _hw4(net) or t["shape"][1] > 32:
        return False
    n, h, w, c = t["shape"]
    cout = 8
    if pad == PAD_SAME:
        oh, ow = h * s, w * s
    else:
        oh, ow = (h - 1) * s + k, (w - 1) * s + k
    dt = t["dtype"]
    wdt = _wdtype(dt)
    wi = net.const([cout, k, k, c], wdt, "weights", scale=[0.004], zp=0 if wdt == "int8" else 128)
    osh = net.const([4], "int32", "data", values=[n, oh, ow, cout])
    bi = net.const([cout], "int32" if dt != "int16" else "int64", "bias", scale=[net.scale(x) * 0.004], zp=0)
    y = net.act([n, oh, ow, cout], dt)
    net.op("TRANSPOSE_CONV", [osh, wi, x, bi], [y], ("TransposeConvOptions", dict(Padding=pad, StrideW=s, StrideH=s)), version=3)
    return True


def _ss_geom(net, b, e):
    """STRIDED_SLICE [b_h : H - e_h, b_w : W - e_w, b_c : C - e_c] (strides 1, no masks)"""
    x = net.cur
    t = net.T(x)
    if not _hw4(net):
        return False
    n, h, w, c = t["shape"]
    begin = [0, b[0], b[1], b[2]]
    end = [n, h - e[0], w - e[1], c - e[2]]
    new = [end[i] - begin[i] for i in range(4)]
    if min(new) <= 0:
        return False
    bt = net.const([4], "int32", "data", values=begin)
    et = net.const([4], "int32", "data", values=end)
    st = net.const([4], "int32", "data", values=[1, 1, 1, 1])
    y = net.act(new, t["dtype"], q=(net.scale(x), net.zp(x)))
    net.op("STRIDED_SLICE", [x, bt, et, st], [y], ("StridedSliceOptions", dict(BeginMask=0, EndMask=0, EllipsisMask=0, NewAxisMask=0, ShrinkAxisMask=0)))
    return True


def _concat_geom(net, axis, extra):
    """CONCATENATION of the current tensor with a constant-free second branch (RELU of it, sliced to `extra` along the axis) and itself:
    three parts of unequal extent along `axis`"""
    x = net.cur
    t = net.T(x)
    if not _hw4(net) or t["shape"][axis] <= extra or extra <= 0:
        return False
    shp = list(t["shape"])
    b = [0, 0, 0, 0]
    sz = list(shp)
    sz[axis] = extra
    bt = net.const([4], "int32", "data", values=b)
    st = net.const([4], "int32", "data", values=sz)
    part = net.act(sz, t["dtype"], q=(net.scale(x), net.zp(x)))
    net.op("SLICE", [x, bt, st], [part], ("SliceOptions", {}))
    r = net.act(shp, t["dtype"], q=(net.scale(x), net.zp(x)))
    net.op("RELU", [x], [r], None)
    out = list(shp)
    out[axis] = 2 * shp[axis] + extra
    y = net.act(out, t["dtype"], q=(net.scale(x), net.zp(x)))
    net.op("CONCATENATION", [x, part, r], [y], ("ConcatenationOptions", dict(Axis=axis, FusedActivationFunction=0)))
    return True


def _split_geom(net, axis, parts, keep):
    x = net.cur
    t = net.T(x)
    if not _hw4(net) or t["shape"][axis] % parts:
        return False
    ax = net.const([], "int32", "data", values=axis)
    shp = list(t["shape"])
    shp[axis] //= parts
    ys = [net.act(shp, t["dtype"], q=(net.scale(x), net.zp(x))) for _ in range(parts)]
    net.op("SPLIT", [ax, x], ys, ("SplitOptions", dict(NumSplits=parts)))
    net.cur = ys[min(keep, parts - 1)]
    return True


_param_base = param_instance


def param_instance(name):  # noqa: F811
    """further families:  padg.t<t>b<b>l<l>r<r>   ewg.<ADD|SUB|MUL|MINIMUM|MAXIMUM>.<f|c|w|h|hw|o|s>.<x|k> (k = constant first)
       meang.a<axes digits>.<k|d> (keep / drop dims)   tconvg.k<k>.s<s>.<S|V>"""
    parts = name.split(".")
    kind = parts[0]
    if kind == "padg":
        import re
        t_, b_, l_, r_ = map(int, re.match(r"t(\d+)b(\d+)l(\d+)r(\d+)$", parts[1]).groups())
        return lambda n: _pad(n, [[0, 0], [t_, b_], [l_, r_], [0, 0]])
    if kind == "ewg":
        return lambda n: _ew_geom(n, parts[1], parts[2], parts[3] == "k")
    if kind == "meang":
        axes = [int(ch) for ch in parts[1][1:]]
        return lambda n: _mean_ax(n, axes, keep=parts[2] == "k")
    if kind == "tconvg":
        return lambda n: _tconv_geom(n, int(parts[1][1:]), int(parts[2][1:]), PAD_SAME if parts[3] == "S" else PAD_VALID)
    if kind == "resizeg":
        op = "RESIZE_NEAREST_NEIGHBOR" if parts[1] == "nn" else "RESIZE_BILINEAR"
        return lambda n: _resize(n, op, factor=int(parts[2][1:]), align=parts[3] == "a", half=parts[3] == "h")
    if kind == "ssg":
        b = [int(v) for v in parts[1][1:].split("-")]
        e = [int(v) for v in parts[2][1:].split("-")]
        return lambda n: _ss_geom(n, b, e)
    if kind == "concatg":
        return lambda n: _concat_geom(n, int(parts[1][1:]), int(parts[2][1:]))
    if kind == "splitg":
        return lambda n: _split_geom(n, int(parts[1][1:]), int(parts[2][1:]), int(parts[3][1:]))
    if kind == "transposeg":
        perm = [int(ch) for ch in parts[1][1:]]

        def f(n, perm=perm):
            x = n.cur
            t = n.T(x)
            if len(t["shape"]) != len(perm):
                return False
            pt = n.const([len(perm)], "int32", "data", values=perm)
            y = n.act([t["shape"][i] for i in perm], t["dtype"], q=(n.scale(x), n.zp(x)))
            n.op("TRANSPOSE", [x, pt], [y], ("TransposeOptions", {}))
            return True
        return f
    if kind == "ewv":
        # binary elementwise operator whose second operand is a VARIABLE tensor of broadcast shape, cut out of the first by a STRIDED_SLICE
        opn, code, order = parts[1], parts[2], parts[3]

        def g(n):
            x = n.cur
            t = n.T(x)
            if not _hw4(n) or t["dtype"] not in ("int8", "uint8", "int16"):
                return False
            nb, h, w, c = t["shape"]
            e = {"c": (h - 1, w - 1, 0), "w": (h - 1, 0, c - 1), "h": (0, w - 1, c - 1), "hw": (0, 0, c - 1), "o": (h - 1, w - 1, c - 1)}[code]
            if not _ss_geom(n, (0, 0, 0), e):
                return False
            y = n.cur
            z = n.act(t["shape"], t["dtype"])
            optname = {"ADD": "AddOptions", "SUB": "SubOptions", "MUL": "MulOptions", "MINIMUM": "MaximumMinimumOptions", "MAXIMUM": "MaximumMinimumOptions"}[opn]
            opts = (optname, dict(FusedActivationFunction=0)) if opn in ("ADD", "SUB", "MUL") else (optname, {})
            if opn in ("MINIMUM", "MAXIMUM"):
                n.T(z)["quant"] = dict(scale=[n.scale(x)], zp=[n.zp(x)])
            n.op(opn, [y, x] if order == "k" else [x, y], [z], opts)
            return True
        return g
    if kind == "quantizeg":
        # QUANTIZE to another (or the same) 8/16-bit type: quantizeg.<int8|uint8|int16>.<scale index>
        dt_out, si = parts[1], int(parts[2][1:])

        def q(n):
            x = n.cur
            t = n.T(x)
            if t["dtype"] not in ("int8", "uint8", "int16"):
                return False
            sc = [0.5, 1.0, 1.7, 0.013][si] * n.scale(x) * (256.0 if (t["dtype"] == "int16") != (dt_out == "int16") and dt_out != "int16" else 1.0) / (256.0 if dt_out == "int16" and t["dtype"] != "int16" else 1.0)
            zp = {"int8": -3, "uint8": 121, "int16": 0}[dt_out]
            y = n.act(t["shape"], dt_out, q=(sc, zp))
            n.op("QUANTIZE", [x], [y], ("QuantizeOptions", {}))
            return True
        return q
    if kind == "lrelug":
        alpha = {"a0": 0.0, "a01": 0.1, "a1": 1.0, "a15": 1.5, "am02": -0.2, "a001": 0.01}[parts[1]]
        return lambda n: _unary(n, "LEAKY_RELU", ("LeakyReluOptions", dict(Alpha=alpha)))
    if kind == "relug":
        opn = {"r": "RELU", "r6": "RELU6", "rn1": "RELU_N1_TO_1"}[parts[1]]
        return lambda n: _unary(n, opn, None, "same")
    if kind == "fcg":
        return lambda n: _fc(n, int(parts[1][1:]))
    return _param_base(name)


def build(history, seed=0):
    """history = dict(start=(shape, dtype), steps=[instance names]).  Returns model dict or None if a step does not apply."""
    net = Net(seed)
    shape, dtype = history["start"]
    x = net.act(list(shape), dtype, name="input")
    net.inputs.append(x)
    net.open.append(x)
    net.cur = x
    for s in history["steps"]:
        f = INSTANCES[s][0] if s in INSTANCES else param_instance(s)
        if not f(net):
            return None
    return net.model()


def enumerate_histories(starts, sigma, depth):
    """All valid histories with exactly `depth` steps (validity decided by building)."""
    out = []
    import itertools

    for st in starts:
        for steps in itertools.product(sigma, repeat=depth):
            h = dict(start=(list(st[0]), st[1]), steps=list(steps))
            if build(h, 0) is not None:
                out.append(h)
    return out
