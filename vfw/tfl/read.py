"""Plain TFLite reader: flatbuffer bytes -> canonical Python value, using only the generated accessors
(generic walk of option tables; no Vela attribute mapping)."""
import importlib
import inspect

import numpy as np

from .build import DTYPES, NP_DTYPES

DTYPE_NAMES = {v: k for k, v in DTYPES.items()}
_SKIP = ("Init", "GetRootAs", "BufferHasIdentifier")


def _mod(name):
    return importlib.import_module("ethosu.vela.tflite." + name)


_builtin_names = None
_options_names = None


def _names():
    global _builtin_names, _options_names
    if _builtin_names is None:
        BO = _mod("BuiltinOperator").BuiltinOperator
        _builtin_names = {v: k for k, v in vars(BO).items() if isinstance(v, int)}
        BOpt = _mod("BuiltinOptions").BuiltinOptions
        _options_names = {v: k for k, v in vars(BOpt).items() if isinstance(v, int)}
    return _builtin_names, _options_names


def generic_table(obj):
    """Field dict of a generated table object: every zero-argument accessor and every vector accessor."""
    out = {}
    cls = type(obj)
    names = [n for n, f in inspect.getmembers(cls, predicate=inspect.isfunction)
             if not n.startswith("_") and not any(s in n for s in _SKIP)]
    vec_bases = {n[:-len("Length")] for n in names if n.endswith("Length")}
    for n in names:
        if n.endswith(("Length", "IsNone", "AsNumpy")):
            continue
        if n in vec_bases:
            ln = getattr(obj, n + "Length")()
            vals = []
            for j in range(ln):
                v = getattr(obj, n)(j)
                vals.append(_plain(v))
            out[n] = vals
        else:
            out[n] = _plain(getattr(obj, n)())
    return out


def _plain(v):
    if v is None or isinstance(v, (int, float, bool, str)):
        return v
    if isinstance(v, bytes):
        return v.decode("utf-8", "replace")
    if isinstance(v, (np.integer,)):
        return int(v)
    if isinstance(v, (np.floating,)):
        return float(v)
    if hasattr(v, "_tab"):
        return generic_table(v)
    return repr(v)


def read_model(data):
    """Returns dict(version, description, opcodes, subgraphs, buffers(list of bytes|None), metadata)."""
    Model = _mod("Model").Model
    bn, on = _names()
    buf = bytearray(data)
    if len(buf) < 8 or bytes(buf[4:8]) != b"TFL3":
        raise ValueError("not a TFL3 flatbuffer")
    m = Model.GetRootAs(buf, 0)
    buffers = []
    for i in range(m.BuffersLength()):
        bb = m.Buffers(i)
        if bb is None or bb.DataLength() == 0:
            buffers.append(None)
        else:
            a = bb.DataAsNumpy()
            buffers.append(bytes(a.tobytes()))
    opcodes = []
    for i in range(m.OperatorCodesLength()):
        oc = m.OperatorCodes(i)
        code = max(oc.DeprecatedBuiltinCode(), oc.BuiltinCode())
        cc = oc.CustomCode()
        opcodes.append(dict(code=code, name=bn.get(code, str(code)), custom=None if cc is None else cc.decode(), version=oc.Version()))
    subgraphs = []
    for si in range(m.SubgraphsLength()):
        sg = m.Subgraphs(si)
        tensors = []
        for ti in range(sg.TensorsLength()):
            t = sg.Tensors(ti)
            shp = t.ShapeAsNumpy()
            shape = [int(x) for x in shp] if isinstance(shp, np.ndarray) else None
            q = t.Quantization()
            quant = None
            if q is not None:
                def arr(x):
                    return [float(v) for v in x] if isinstance(x, np.ndarray) else None
                zp = q.ZeroPointAsNumpy()
                quant = dict(scale=arr(q.ScaleAsNumpy()), zp=[int(v) for v in zp] if isinstance(zp, np.ndarray) else None,
                             qdim=q.QuantizedDimension(), min=arr(q.MinAsNumpy()), max=arr(q.MaxAsNumpy()))
            nm = t.Name()
            tensors.append(dict(name=None if nm is None else nm.decode("utf-8", "replace"), shape=shape,
                                dtype=DTYPE_NAMES.get(t.Type(), str(t.Type())), buffer=t.Buffer(), quant=quant,
                                is_variable=bool(t.IsVariable())))
        ops = []
        for oi in range(sg.OperatorsLength()):
            o = sg.Operators(oi)
            oc = opcodes[o.OpcodeIndex()]
            ins = o.InputsAsNumpy()
            outs = o.OutputsAsNumpy()
            inter = o.IntermediatesAsNumpy()
            opts = None
            otype = o.BuiltinOptionsType()
            if otype != 0 and o.BuiltinOptions() is not None:
                oname = on.get(otype)
                cls = getattr(_mod(oname), oname)
                x = cls()
                tab = o.BuiltinOptions()
                x.Init(tab.Bytes, tab.Pos)
                opts = (oname, generic_table(x))
            cust = o.CustomOptionsAsNumpy()
            ops.append(dict(op=oc["name"], custom_code=oc["custom"], version=oc["version"],
                            inputs=[int(v) for v in ins] if isinstance(ins, np.ndarray) else [],
                            outputs=[int(v) for v in outs] if isinstance(outs, np.ndarray) else [],
                            intermediates=[int(v) for v in inter] if isinstance(inter, np.ndarray) else [],
                            opts=opts, custom=bytes(cust.tobytes()) if isinstance(cust, np.ndarray) else None))
        si_ = sg.InputsAsNumpy()
        so_ = sg.OutputsAsNumpy()
        nm = sg.Name()
        subgraphs.append(dict(name=None if nm is None else nm.decode(), tensors=tensors, ops=ops,
                              inputs=[int(v) for v in si_] if isinstance(si_, np.ndarray) else [],
                              outputs=[int(v) for v in so_] if isinstance(so_, np.ndarray) else []))
    metadata = []
    for i in range(m.MetadataLength()):
        md = m.Metadata(i)
        metadata.append((md.Name().decode(), md.Buffer()))
    d = m.Description()
    return dict(version=m.Version(), description=None if d is None else d.decode(), opcodes=opcodes,
                subgraphs=subgraphs, buffers=buffers, metadata=metadata)


def tensor_data(model, sg, ti):
    """numpy array of a constant tensor (or None)."""
    t = model["subgraphs"][sg]["tensors"][ti]
    raw = model["buffers"][t["buffer"]] if t["buffer"] < len(model["buffers"]) else None
    if raw is None:
        return None
    dt = NP_DTYPES.get(t["dtype"])
    if dt is None:
        return raw
    a = np.frombuffer(raw, dtype=dt)
    try:
        return a.reshape(t["shape"] if t["shape"] is not None else [])
    except ValueError:
        return a
