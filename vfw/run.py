"""./check <ID> [--tier quick|thorough] [--replay FILE]"""
import argparse
import importlib
import json
import os
import sys
import traceback

from . import core


def main(argv=None):
    ap = argparse.ArgumentParser()
    ap.add_argument("pid")
    ap.add_argument("--tier", choices=["quick", "thorough"], default=None)
    ap.add_argument("--replay", default=None)
    args = ap.parse_args(argv)
    tier = args.tier or os.environ.get("VERIF_TIER") or "quick"
    if tier not in ("quick", "thorough"):
        tier = "quick"
    try:
        seed = int(os.environ.get("VERIF_SEED", "0"))
    except ValueError:
        seed = 0
    pid = args.pid.upper()
    try:
        mod = importlib.import_module("vfw.props.%s" % pid.lower())
    except ModuleNotFoundError as e:
        print("no check for %s (%s)" % (pid, e))
        return 3
    ctx = core.Ctx(pid, tier, seed)
    try:
        if args.replay:
            rec = json.load(open(args.replay))
            case = core.unjson(rec["case"])
            obs = []
            for _ in range(2):
                obs.append(mod.replay(ctx, case))
            if obs[0] != obs[1]:
                print("HARNESS-ERROR: replay of %s is not deterministic:\n%s\n%s" % (args.replay, obs[0], obs[1]))
                return 3
            if obs[0]:
                print("VIOLATION property=%s replay=%s" % (pid, args.replay))
                for line in obs[0]:
                    print("  " + str(line))
                return 1
            print("replay of %s: property holds" % args.replay)
            return 0
        return mod.run(ctx)
    except core.HarnessError as e:
        print("HARNESS-ERROR: %s" % e)
        return 3
    except Exception:
        traceback.print_exc()
        print("HARNESS-ERROR: unexpected exception in the check driver")
        return 3


if __name__ == "__main__":
    sys.exit(main())
