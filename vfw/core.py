"""Runner context: repo binding, violations / known findings, evidence, replay files."""
import hashlib
import importlib.machinery
import importlib.util
import json
import os
import subprocess
import sys
import sysconfig
import time

VERIF = os.path.dirname(os.path.dirname(os.path.abspath(__file__)))
REPO = os.environ.get("VERIF_REPO", "/repo")
LEVELS = ("exploration", "fault_enumeration", "model_checking", "proof", "translation_validation", "other")


class HarnessError(Exception):
    """The machinery itself is broken (exit 3): never reported as a finding."""


# --------------------------------------------------------------------------------------------
# binding to the current tree


def _build_codec(extra_flags=(), tag="ext"):
    """Compile ethosu/mlw_codec/*.c of the bound tree; cached by content hash under /verif/.cache."""
    import numpy as np

    srcdir = os.path.join(REPO, "ethosu", "mlw_codec")
    names = sorted(n for n in os.listdir(srcdir) if n.endswith((".c", ".h")))
    h = hashlib.sha256()
    for n in names:
        h.update(n.encode())
        h.update(open(os.path.join(srcdir, n), "rb").read())
    h.update(repr(extra_flags).encode())
    h.update(sys.version.encode() + np.__version__.encode())
    key = h.hexdigest()[:20]
    outdir = os.path.join(VERIF, ".cache", "mlw", tag + "-" + key)
    suffix = importlib.machinery.EXTENSION_SUFFIXES[0]
    out = os.path.join(outdir, "mlw_codec" + suffix)
    if os.path.exists(out):
        return out
    os.makedirs(outdir, exist_ok=True)
    tmp = out + ".%d.tmp" % os.getpid()
    cmd = ["gcc", "-O3", "-g0", "-shared", "-fPIC", "-fno-strict-overflow", "-DNDEBUG",
           "-DNPY_NO_DEPRECATED_API=NPY_1_9_API_VERSION",
           "-I" + np.get_include(), "-I" + sysconfig.get_paths()["include"]]
    cmd += list(extra_flags)
    cmd += [os.path.join(srcdir, n) for n in names if n.endswith(".c")]
    cmd += ["-o", tmp]
    r = subprocess.run(cmd, capture_output=True, text=True)
    if r.returncode != 0:
        raise HarnessError("building mlw_codec from %s failed:\n%s" % (srcdir, r.stderr[-3000:]))
    os.replace(tmp, out)
    return out


_bound = False


def bind_repo(need_codec=True):
    """Make `import ethosu.vela` resolve to REPO's working tree, with the C codec compiled from it."""
    global _bound
    if _bound:
        return
    if sys.path[0] != REPO:
        sys.path.insert(0, REPO)
    # a helper may have imported the generated flatbuffer classes (ethosu.vela.tflite) before the tree was bound: if that resolved to
    # another checkout (the editable install), forget it so that everything is imported from REPO
    stale = [k for k, m_ in sys.modules.items() if (k == "ethosu" or k.startswith("ethosu.")) and
             not any(os.path.realpath(p_).startswith(os.path.realpath(REPO) + os.sep) for p_ in (list(getattr(m_, "__path__", [])) or [getattr(m_, "__file__", "") or ""]))]
    for k in stale:
        del sys.modules[k]
    if need_codec:
        so = _build_codec()
        import ethosu  # namespace package

        loader = importlib.machinery.ExtensionFileLoader("ethosu.mlw_codec", so)
        spec = importlib.util.spec_from_file_location("ethosu.mlw_codec", so, loader=loader)
        mod = importlib.util.module_from_spec(spec)
        loader.exec_module(mod)
        sys.modules["ethosu.mlw_codec"] = mod
        ethosu.mlw_codec = mod
    import ethosu.vela
    import ethosu.vela.vela  # noqa: warm every module before workers fork
    import ethosu.vela.api  # noqa

    f = os.path.realpath(ethosu.vela.__file__)
    if not f.startswith(os.path.realpath(REPO) + os.sep):
        raise HarnessError("ethosu.vela resolved to %s, not under %s" % (f, REPO))
    _bound = True


# --------------------------------------------------------------------------------------------
# known findings


def load_findings(pid):
    path = os.path.join(VERIF, "known_findings.jsonl")
    out = {}
    if os.path.exists(path):
        for line in open(path):
            line = line.strip()
            if not line or line.startswith("#"):
                continue
            rec = json.loads(line)
            if rec.get("property") == pid and rec.get("status") == "open":
                out[rec["key"]] = rec
    return out


# --------------------------------------------------------------------------------------------


def _jsonable(x):
    import numpy as np

    if isinstance(x, dict):
        return {str(k): _jsonable(v) for k, v in x.items()}
    if isinstance(x, (list, tuple, set, frozenset)):
        return [_jsonable(v) for v in x]
    if isinstance(x, (np.integer,)):
        return int(x)
    if isinstance(x, (np.floating,)):
        return float(x)
    if isinstance(x, np.ndarray):
        return x.tolist()
    if isinstance(x, bytes):
        return {"__bytes__": x.hex()}
    if isinstance(x, (str, int, float, bool)) or x is None:
        return x
    return repr(x)


def unjson(x):
    if isinstance(x, dict):
        if set(x) == {"__bytes__"}:
            return bytes.fromhex(x["__bytes__"])
        return {k: unjson(v) for k, v in x.items()}
    if isinstance(x, list):
        return [unjson(v) for v in x]
    return x


class Ctx:
    MAX_REPLAYS = 40

    def __init__(self, pid, tier, seed):
        self.pid = pid
        self.tier = tier
        self.seed = seed
        self.t0 = time.time()
        self.known = load_findings(pid)
        self.known_hit = {}
        self.violations = []  # (key, what, replay_path)
        self.vkeys = set()
        self.notes = []
        self.inconclusive = None
        self.counters = {}

    # counters ------------------------------------------------------------------------------
    def count(self, name, n=1):
        self.counters[name] = self.counters.get(name, 0) + n

    def merge_counters(self, d):
        for k, v in d.items():
            self.count(k, v)

    # violations ----------------------------------------------------------------------------
    def violation(self, key, what, case):
        """key: specific identity of the failing input / call site; case: JSON-able replay payload."""
        if key in self.known:
            if key not in self.known_hit:
                self.known_hit[key] = self.known[key]
                print("KNOWN-FINDING: property=%s %s [%s]" % (self.pid, self.known[key].get("what", what), key), flush=True)
            return False
        if key in self.vkeys:
            return True
        self.vkeys.add(key)
        path = None
        if len(self.violations) < self.MAX_REPLAYS:
            os.makedirs(os.path.join(VERIF, "replay"), exist_ok=True)
            digest = hashlib.sha1(key.encode()).hexdigest()[:10]
            path = os.path.join(VERIF, "replay", "%s-%s.json" % (self.pid, digest))
            with open(path, "w") as f:
                json.dump({"property": self.pid, "key": key, "what": what, "case": _jsonable(case)}, f, indent=1)
        self.violations.append((key, what, path))
        if path:
            print("VIOLATION property=%s replay=%s" % (self.pid, path), flush=True)
            print("  key: %s\n  what: %s" % (key, what), flush=True)
        return True

    # evidence ------------------------------------------------------------------------------
    def finish(self, level, coverage, assumptions=()):
        assert level in LEVELS
        wall = time.time() - self.t0
        coverage = dict(coverage)
        coverage.setdefault("counters", dict(sorted(self.counters.items())))
        coverage["known_findings_matched"] = sorted(self.known_hit)
        ev = {
            "property_id": self.pid,
            "tier": self.tier,
            "seed": self.seed,
            "level": level,
            "coverage": _jsonable(coverage),
            "assumptions": list(assumptions),
            "wall_s": round(wall, 2),
            "violations": len(self.violations),
            "repo": REPO,
        }
        os.makedirs(os.path.join(VERIF, "evidence"), exist_ok=True)
        path = os.path.join(VERIF, "evidence", "%s.json" % self.pid)
        tmp = path + ".tmp"
        with open(tmp, "w") as f:
            json.dump(ev, f, indent=1, sort_keys=False)
        os.replace(tmp, path)
        validate_evidence(path)
        brief = {k: v for k, v in coverage.items() if isinstance(v, (int, float, bool, str)) and k not in ("rule", "explanation")}
        print("%s tier=%s seed=%d level=%s wall=%.1fs violations=%d known=%d %s" % (
            self.pid, self.tier, self.seed, level, wall, len(self.violations), len(self.known_hit), json.dumps(brief)), flush=True)
        if self.violations:
            import collections as _c
            groups = _c.Counter(k.split("|")[0] for k, _, _ in self.violations)
            print("violation keys by kind: %s" % dict(groups), flush=True)
            if os.environ.get("VERIF_LIST_KEYS"):
                for k, w, _ in self.violations:
                    print("  KEY %s" % k)
            return 1
        if self.inconclusive:
            print("INCONCLUSIVE property=%s reason=%s" % (self.pid, self.inconclusive), flush=True)
            return 2
        return 0


def validate_evidence(path):
    schema = "/root/.vp/EVIDENCE.schema.json"
    vt = "/opt/veriftools/pyvenv/bin/python"
    if not (os.path.exists(schema) and os.path.exists(vt)):
        return
    code = ("import json,sys,jsonschema; jsonschema.validate(json.load(open(sys.argv[1])), json.load(open(sys.argv[2])))")
    r = subprocess.run([vt, "-c", code, path, schema], capture_output=True, text=True)
    if r.returncode != 0:
        raise HarnessError("evidence file %s does not validate:\n%s" % (path, r.stderr[-2000:]))
