"""Self-tests of the machinery (planted defects in synthetic artefacts). Run by setup.sh."""
import sys


def main():
    from .props import c17
    from .npu import isa
    import struct

    # payload parser must reject a mis-declared length and a misaligned start
    good = c17.expected_payload([1, 2, 3], "ethos-u55-128")
    assert c17.parse_payload(good, "ethos-u55-128") == ([], [1, 2, 3])
    bad = good[:-4]
    assert c17.parse_payload(bad, "ethos-u55-128")[0]
    w = list(struct.unpack("<%dI" % (len(good) // 4), good))
    w.insert(4, isa.DA_NOP)
    assert any("aligned" in p for p in c17.parse_payload(struct.pack("<%dI" % len(w), *w), "ethos-u55-128")[0])
    print("selftest ok")
    return 0


if __name__ == "__main__":
    sys.exit(main())
