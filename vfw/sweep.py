"""Program-space sweep: (network history x configuration) cases, each executed in a forked child of a warmed worker."""
import random
import re
import time

from . import compile as C
from . import core, isolate
from .tfl import build, nets

_FRAME = re.compile(r'File "([^"]*?/ethosu/[^"]+)", line (\d+), in (\S+)')


def crash_site(tb):
    """innermost frame inside ethosu/ as 'file.py:function' (line numbers drift, so not part of the identity)."""
    m = _FRAME.findall(tb or "")
    if not m:
        return "?"
    f, _, fn = m[-1]
    return "%s:%s" % (f.split("/ethosu/")[-1], fn)


_hist_cache = {}


def histories(starts, sigma, depth):
    key = (tuple(map(str, starts)), tuple(sigma), depth)
    if key not in _hist_cache:
        _hist_cache[key] = nets.enumerate_histories(starts, sigma, depth)
    return _hist_cache[key]


def fork_histories(starts, firsts, mids, lasts):
    """histories first > mid > last (mid = tap / branch): intermediate tensors with several consumers or that are also outputs."""
    out = []
    for st in starts:
        for a in firsts:
            for m in mids:
                for b in lasts:
                    h = dict(start=(list(st[0]), st[1]), steps=[a, m, b])
                    if nets.build(h, 0) is not None:
                        out.append(h)
    return out


def levels(tier, plan):
    """plan: list of (level-name, starts, sigma, depth, lattice-name) or (level-name, histories-list, lattice-name)."""
    out = []
    for entry in plan:
        if len(entry) == 3:
            name, hs, lat = entry
            out.append((name, [dict(h=h, cfg=c) for h in hs for c in C.lattice(lat)]))
            continue
        name, starts, sigma, depth, lat = entry
        hs = histories(starts, sigma, depth)
        cfgs = C.lattice(lat)
        out.append((name, [dict(h=h, cfg=c) for h in hs for c in cfgs]))
    return out


def geometry_histories(tier):
    """single-operator (and RELU-preceded, so that the operator is not the first of the network) networks over a lattice of input
    extents x kernel / stride geometries, including strides beyond 3 that the compiler folds into the depth or accepts because the
    output is one pixel wide / high"""
    quick = tier == "quick"
    Ws = (2, 4, 6, 9) if quick else (1, 2, 3, 4, 6, 9, 12)
    Hs = (1, 3) if quick else (1, 2, 3)
    Cs = (3, 8) if quick else (1, 8)
    kws = (1, 2, 3, 4) if quick else (1, 2, 3, 4, 5)
    sws = (2, 4, 6) if quick else (2, 3, 4, 6, 8)
    out = []
    for H in Hs:
        for W in Ws:
            for C_ in Cs:
                start = ([1, H, W, C_], "int8" if (H + W + C_) % 3 else "uint8")
                steps = []
                for kh in ((1,) if H == 1 else (1, 3)):
                    for kw in kws:
                        for sw in sws:
                            for sh in ((1,) if quick else (1, 4)):
                                for pad in "SV":
                                    steps.append("convg.k%dx%d.s%dx%d.%s.c8" % (kh, kw, sh, sw, pad))
                                    if not quick or (kw == 3 and sw in (2, 4)):
                                        steps.append("dwg.k%dx%d.s%dx%d.%s" % (kh, kw, sh, sw, pad))
                                        steps.append("maxg.k%dx%d.s%dx%d.%s" % (kh, kw, sh, sw, pad))
                                        steps.append("avgg.k%dx%d.s%dx%d.%s" % (kh, kw, sh, sw, pad))
                for st in steps:
                    for pre in ((), ("relu",)):
                        h = dict(start=start, steps=list(pre) + [st])
                        if nets.build(h, 0) is not None:
                            out.append(h)
    # pooling windows that span exactly ONE spatial axis (kernel == stride == extent there) while SAME padding really pads along the other one
    for H, W in ((5, 2), (7, 3), (3, 2), (2, 5), (3, 7), (2, 3), (4, 2), (2, 2), (3, 3)):
        start = ([1, H, W, 8], "int8")
        for kh, kw, sh, sw in ((2, 2, 2, 2), (3, 3, 3, 3), (3, 3, 1, 3), (3, 3, 3, 1), (2, 2, 1, 2), (2, 2, 2, 1), (3, 2, 2, 2), (2, 3, 2, 2)):
            for pad in "SV":
                for kind in ("maxg", "avgg"):
                    for pre in ((), ("relu",)):
                        h = dict(start=start, steps=list(pre) + ["%s.k%dx%d.s%dx%d.%s" % (kind, kh, kw, sh, sw, pad)])
                        if nets.build(h, 0) is not None:
                            out.append(h)
    return out


def geometry2_histories(tier):
    """broadcast shapes and operand order of elementwise operators, PAD amounts alone and in front of kernels, MEAN axes, transposed convolution geometries"""
    quick = tier == "quick"
    out = []

    def add(start, steps):
        h = dict(start=(list(start[0]), start[1]), steps=list(steps))
        if nets.build(h, 0) is not None:
            out.append(h)

    S8, SU, S16 = ((1, 8, 8, 8), "int8"), ((1, 3, 5, 17), "uint8"), ((1, 16, 16, 8), "int16")
    for st in ((S8, SU) if quick else (S8, SU, S16, ((1, 1, 1, 32), "int8"), ((1, 1, 9, 3), "int8"))):
        for op in ("ADD", "SUB", "MUL", "MINIMUM", "MAXIMUM"):
            for code in ("f", "c", "w", "h", "hw", "o", "s"):
                for order in "xk":
                    add(st, ["ewg.%s.%s.%s" % (op, code, order)])
                    if not quick:
                        add(st, ["relu", "ewg.%s.%s.%s" % (op, code, order), "conv1x1"])
    after = ([], ["convg.k3x3.s1x1.V.c8"], ["maxg.k2x2.s2x2.V"], ["avgg.k3x3.s1x1.V"], ["dwg.k3x3.s2x2.V"])
    rng = (0, 1, 2)
    for st in ((((1, 6, 7, 3), "int8"),) if quick else (((1, 6, 7, 3), "int8"), ((1, 8, 8, 8), "uint8"))):
        for t_ in rng:
            for b_ in rng:
                for l_ in rng:
                    for r_ in rng:
                        if quick and (t_ + b_ + l_ + r_) % 2:
                            continue
                        for a in after:
                            add(st, ["padg.t%db%dl%dr%d" % (t_, b_, l_, r_)] + a)
    for st in (S8, ((1, 7, 33, 3), "uint8"), S16, ((1, 1, 9, 8), "int8"), ((1, 33, 1, 8), "int8"), ((2, 4, 4, 8), "int8"), ((1, 65, 65, 4), "int8")):
        for axes in ("1", "2", "12", "3", "13", "23", "123"):
            for kd in "kd":
                add(st, ["meang.a%s.%s" % (axes, kd)])
                if not quick:
                    add(st, ["conv1x1", "meang.a%s.%s" % (axes, kd)])
    for st in (((1, 4, 4, 8), "int8"), ((1, 1, 5, 3), "uint8"), ((1, 7, 3, 16), "int8")):
        for k in (2, 3, 4):
            for s_ in (1, 2):
                for pad in "SV":
                    add(st, ["tconvg.k%d.s%d.%s" % (k, s_, pad)])
    return out


def geometry3_histories(tier):
    """resize factors and coordinate modes, STRIDED_SLICE begin/end lattices, three-part concatenation and SPLIT along every axis, FULLY_CONNECTED sizes"""
    quick = tier == "quick"
    out = []

    def add(start, steps):
        h = dict(start=(list(start[0]), start[1]), steps=list(steps))
        if nets.build(h, 0) is not None:
            out.append(h)

    rstarts = [((1, 1, 1, 8), "int8"), ((1, 1, 4, 8), "int8"), ((1, 2, 2, 17), "int8"), ((1, 3, 5, 8), "uint8"), ((1, 8, 8, 8), "int8"), ((1, 4, 4, 8), "int16")]
    for st in (rstarts[1:4] if quick else rstarts):
        for kind in ("nn", "bl"):
            for f in (2, 4, 8):
                for mode in "nah":
                    add(st, ["resizeg.%s.f%d.%s" % (kind, f, mode)])
                    if not quick:
                        add(st, ["conv1x1", "resizeg.%s.f%d.%s" % (kind, f, mode), "conv1x1"])
    sstarts = [((1, 6, 7, 20), "int8"), ((1, 5, 5, 40), "uint8")]
    for st in (sstarts[:1] if quick else sstarts):
        for bh in (0, 1):
            for bw in (0, 2):
                for bc in (0, 3, 16):
                    for eh in (0, 1):
                        for ew in (0, 1):
                            for ec in (0, 1, 4):
                                if quick and (bh + bw + bc + eh + ew + ec) % 2:
                                    continue
                                for after in ([], ["conv1x1"], ["relu"], ["maxpool2x2"]):
                                    add(st, ["ssg.b%d-%d-%d.e%d-%d-%d" % (bh, bw, bc, eh, ew, ec)] + after)
    cstarts = [((1, 4, 6, 8), "int8"), ((1, 5, 3, 20), "uint8"), ((1, 4, 4, 8), "int16")]
    for st in (cstarts[:2] if quick else cstarts):
        for axis in (1, 2, 3):
            for extra in (1, 2, 3):
                add(st, ["concatg.a%d.x%d" % (axis, extra)])
                add(st, ["concatg.a%d.x%d" % (axis, extra), "conv1x1"])
            for parts_ in (2, 3, 4):
                for keep in (0, parts_ - 1):
                    add(st, ["splitg.a%d.n%d.k%d" % (axis, parts_, keep), "relu"])
                    if not quick:
                        add(st, ["conv1x1", "splitg.a%d.n%d.k%d" % (axis, parts_, keep), "conv3x3"])
    for st in (((1, 1, 1, 32), "int8"), ((1, 2, 2, 17), "int8"), ((1, 8, 8, 8), "uint8"), ((1, 1, 1, 512), "int8"), ((1, 4, 4, 8), "int16")):
        for units in ((1, 16, 33) if quick else (1, 2, 15, 16, 17, 33, 64, 130)):
            add(st, ["fcg.u%d" % units])
            if not quick:
                add(st, ["fcg.u%d" % units, "fcg.u%d" % units])
    return out


def geometry4_histories(tier):
    """TRANSPOSE with every permutation (ranks 2..4), binary elementwise operators whose second operand is a variable tensor of broadcast shape"""
    import itertools

    quick = tier == "quick"
    out = []

    def add(start, steps):
        h = dict(start=(list(start[0]), start[1]), steps=list(steps))
        if nets.build(h, 0) is not None:
            out.append(h)

    for st in (((1, 4, 6, 8), "int8"), ((1, 3, 5, 17), "uint8"), ((1, 4, 4, 8), "int16"), ((2, 3, 4, 8), "int8"), ((1, 1, 7, 16), "int8"), ((1, 9, 1, 4), "int8")):
        for perm in itertools.permutations(range(4)):
            p = "".join(map(str, perm))
            add(st, ["transposeg.p" + p])
            if not quick:
                add(st, ["conv1x1", "transposeg.p" + p, "relu"])
    for st in (((6, 20), "int8"), ((4, 5, 8), "int8")):
        for perm in itertools.permutations(range(len(st[0]))):
            add(st, ["transposeg.p" + "".join(map(str, perm))])
    for st in ((((1, 4, 6, 8), "int8"), ((1, 3, 5, 17), "uint8")) if quick else (((1, 4, 6, 8), "int8"), ((1, 3, 5, 17), "uint8"), ((1, 4, 4, 8), "int16"), ((1, 8, 8, 32), "int8"))):
        for opn in ("ADD", "SUB", "MUL", "MINIMUM", "MAXIMUM"):
            for code in ("c", "w", "h", "hw", "o"):
                for order in "xk":
                    add(st, ["ewv.%s.%s.%s" % (opn, code, order)])
                    if not quick:
                        add(st, ["conv1x1", "ewv.%s.%s.%s" % (opn, code, order), "relu"])
    return out


def geometry5_histories(tier):
    """the kernel geometries on int16 / per-tensor uint8 inputs, large pooling windows, batched FULLY_CONNECTED, QUANTIZE between data types,
    LEAKY_RELU slopes (0, 1, above 1, negative), clamps behind different producers"""
    quick = tier == "quick"
    out = []

    def add(start, steps):
        h = dict(start=(list(start[0]), start[1]), steps=list(steps))
        if nets.build(h, 0) is not None:
            out.append(h)

    for st in (((1, 3, 9, 8), "int16"), ((1, 1, 6, 3), "int16")) + (() if quick else (((1, 2, 12, 1), "int16"), ((2, 3, 9, 8), "int8"))):
        for kh in (1, 3):
            for kw in (1, 2, 3, 4):
                for sw in (1, 2, 3, 4, 6):
                    for pad in "SV":
                        add(st, ["convg.k%dx%d.s1x%d.%s.c8" % (kh, kw, sw, pad)])
                        if kw >= 2 and sw <= 3:
                            add(st, ["dwg.k%dx%d.s1x%d.%s" % (kh, kw, sw, pad)])
                            add(st, ["maxg.k%dx%d.s1x%d.%s" % (kh, kw, sw, pad)])
    for st in (((1, 16, 16, 8), "int8"), ((1, 33, 20, 3), "uint8")) + (() if quick else (((1, 16, 16, 8), "int16"), ((1, 64, 64, 4), "int8"))):
        for k in (5, 8, 16):
            for s_ in (1, 2, 3):
                for pad in "SV":
                    add(st, ["maxg.k%dx%d.s%dx%d.%s" % (k, k, s_, s_, pad)])
                    add(st, ["avgg.k%dx%d.s%dx%d.%s" % (k, k, s_, s_, pad)])
        add(st, ["maxg.k16x1.s1x1.V"])
        add(st, ["avgg.k1x16.s1x1.V"])
    for st in (((4, 32), "int8"), ((3, 17), "uint8"), ((2, 64), "int16"), ((8, 8), "int8")):
        for units in (1, 8, 17, 64):
            add(st, ["fcg.u%d" % units])
            add(st, ["fcg.u%d" % units, "fcg.u8"])
    for st in (((1, 4, 4, 8), "int8"), ((1, 3, 5, 17), "uint8"), ((1, 4, 4, 8), "int16")):
        for dt in ("int8", "uint8", "int16"):
            for si in range(4):
                add(st, ["quantizeg.%s.s%d" % (dt, si)])
                if not quick:
                    add(st, ["conv1x1", "quantizeg.%s.s%d" % (dt, si), "relu"])
        for a in ("a0", "a01", "a1", "a15", "am02", "a001"):
            add(st, ["lrelug." + a])
            add(st, ["conv1x1", "lrelug." + a])
            if not quick:
                add(st, ["lrelug." + a, "reshape"])
                add(st, ["maxpool2x2", "lrelug." + a, "conv1x1"])
        for r_ in ("r", "r6", "rn1"):
            for pre in ("conv3x3", "add_const", "maxpool2x2", "avgpool2x2", "mul_const", "dw3x3", "reshape", "concat"):
                add(st, [pre, "relug." + r_])
    return out


def rareops_histories(tier):
    """rarely used operators (SQUARED_DIFFERENCE, PACK / UNPACK, SPLIT_V, SHAPE, EXPAND_DIMS, LOG / SQRT / GELU / 16-bit EXP, PRELU with full and
    per-channel alpha, UNIDIRECTIONAL_SEQUENCE_LSTM batch- and time-major): alone, behind a producer and in front of a consumer"""
    starts = [((1, 8, 8, 8), "int8"), ((1, 2, 3, 8), "int8"), ((1, 7, 33, 3), "uint8"), ((1, 16, 16, 8), "int16"), ((1, 1, 4, 16), "int8")]
    if tier != "quick":
        starts += [((1, 4, 4, 8), "int8"), ((1, 16, 16, 16), "int8"), ((1, 3, 5, 20), "int8"), ((1, 8, 8, 32), "uint8")]
    pres = ["conv3x3", "relu", "cpu_neg"] if tier == "quick" else ["conv3x3", "relu", "cpu_neg", "maxpool2x2", "add_const", "logistic", "reshape", "split"]
    posts = ["conv1x1", "add_const", "cpu_neg"] if tier == "quick" else ["conv1x1", "add_const", "cpu_neg", "relu", "mul_const", "tap", "concat", "softmax"]
    out, seen = [], set()

    def add(start, steps):
        h = dict(start=(list(start[0]), start[1]), steps=list(steps))
        k = repr(h)
        if k not in seen and nets.build(h, 0) is not None:
            seen.add(k)
            out.append(h)
    for st in starts:
        for r in nets.SIGMA_R:
            add(st, [r])
            for p_ in pres:
                add(st, [p_, r])
            for q_ in posts:
                add(st, [r, q_])
    return out


def default_plan(tier, scale=1.0):
    mids = ["tap", "branch_cpu", "branch_npu"]
    big = [((1, 32, 32, 16), "int8")]
    perf_ops = ["conv3x3", "dw3x3", "conv1x1", "maxpool2x2", "conv3x3s2", "add_const"]
    heavy = [((1, 8, 8, 256), "int8"), ((1, 4, 4, 128), "int8")]
    heavy_ops = ["conv3x3_c72_pc", "conv1x1_c40"]
    resize_first = [dict(start=([1, 24, 24, 16], "int8"), steps=st) for st in (["resize_nn2", "conv3x3", "conv3x3"], ["resize_nn2", "conv3x3", "dw3x3"], ["resize_nn2", "dw3x3"],
                                                                               ["resize_nn2", "conv3x3"], ["conv1x1", "resize_nn2", "conv3x3"])]
    # a CPU-produced tensor that a later CPU operator still reads, copied (bypassed RESHAPE) and then overwritten in place on the NPU
    cpualias = [h for h in (dict(start=(list(st[0]), st[1]), steps=["cpu_neg", m, "reshape", x]) for st in nets.STARTS_Q[:2] for m in ("tap", "branch_cpu")
                            for x in (("add_const", "relu") if tier == "quick" else ("add_const", "mul_const", "relu", "hard_swish", "conv1x1"))) if nets.build(h, 0) is not None]
    # histories behind defects that only the thorough tier had reached (now fixed): kept in the quick tier as regression levels
    def H(start, *steps):
        return dict(start=(list(start[0]), start[1]), steps=list(steps))
    reg_blockdep = [H(((1, 48, 48, 8), "int8"), a, "conv3x3v_relu6", "dw3x3s2") for a in ("dw3x3s2", "maxpool2x2")]
    reg_tilepad = [H(st, "resize_bl2_hp") for st in (((1, 8, 8, 8), "int8"), ((1, 7, 33, 3), "uint8"), ((1, 8, 8, 32), "uint8"), ((1, 16, 4, 8), "int8"), ((1, 9, 3, 16), "int16"))]
    reg_tilepad += [H(((1, 12, 4, 8), "int8"), "conv1x1", "resize_bl2_hp"), H(((1, 12, 4, 8), "int8"), "resize_bl2_hp", "conv1x1")]  # taller than wide: the interleaved row writes end at the top of the tensor
    reg_upcascade = [H(((1, 16, 16, 16), "int8"), a, "resize_nn2") for a in ("relu", "conv3x3", "add_const")] + [H(((1, 7, 33, 3), "uint8"), "conv1x1", "resize_nn2")]
    reg_iface = [H(((1, 33, 7, 40), "int8"), "argmax"), H(((1, 33, 7, 40), "int8"), "argmax64"), H(((1, 1, 1, 32), "int8"), "resize_nn2_ac"), H(((1, 1, 1, 32), "int8"), "resize_bl2_ac")]
    # rarely combined command-line options (lattice cO) on networks with CPU-resident weighted operators (asymmetric int8 weights), taps and tables
    opt_hist = [h for h in (H(st, *steps) for st in nets.STARTS_Q[:2] for steps in (
        ["cpu_dw_s4_asym"], ["cpu_conv_s4_asym"], ["conv3x3", "cpu_dw_s4_asym"], ["cpu_conv_s4_asym", "conv1x1"], ["conv3x3", "dw3x3"], ["cpu_neg", "tap", "conv3x3"],
        ["logistic", "conv1x1"], ["conv3x3s2", "add_const", "maxpool2x2"])) if nets.build(h, 0) is not None]
    if tier == "quick":
        return [("G1xC8", nets.STARTS_Q, nets.SIGMA_Q, 1, "c8"), ("optionsxCO", opt_hist, "cO"),
                ("resizefirstxCR", resize_first, "cR"),
                ("bigweightsxCW", histories(heavy + [((1, 8, 8, 64), "int8")], heavy_ops + ["dw3x3", "dw5x5v"], 1) + histories(heavy[:1], heavy_ops, 2) + [H(((1, 4, 4, 128), "int8"), "conv1x1_c40", "dw3x3")], "cW"),
                ("G2xC1", nets.STARTS_Q[:2], nets.SIGMA_Q, 2, "c2"),
                ("fork3xC2", fork_histories(nets.STARTS_Q[:2], nets.SIGMA_C + ["cpu_neg"], mids, nets.SIGMA_C + ["cpu_neg"]), "c2"),
                ("cpualias4xC2", cpualias, "c2"),
                ("G1xCZ", nets.STARTS_Q[:2], nets.SIGMA_Q, 1, "cZ"),
                ("regblockdepxCP", reg_blockdep, "cP"), ("regtilepadxC8", reg_tilepad, "c8"), ("regupcascadexC8", reg_upcascade, "c8"), ("regifacexC2", reg_iface, "c2"),
                ("geometryxC1", geometry_histories(tier), "c1"), ("geometry2xC1", geometry2_histories(tier), "c1"), ("geometry3xC1", geometry3_histories(tier), "c1"), ("geometry4xC1", geometry4_histories(tier), "c1"), ("geometry5xC1", geometry5_histories(tier), "c1"), ("rareopsxC2", rareops_histories(tier), "c2"),
                ("perfcascade3xCP", histories(big, perf_ops, 3), "cP")]
    return [("G1xC24", nets.STARTS_T, nets.SIGMA_T, 1, "c24"), ("optionsxCO", opt_hist, "cO"),
            ("resizefirstxCR", resize_first + [dict(start=([1, 16, 16, 8], "int8"), steps=h["steps"]) for h in resize_first], "cR"),
            ("bigweightsxCW", histories(heavy + [((1, 8, 8, 64), "int8")], heavy_ops + ["dw3x3", "dw5x5v"], 1) + histories(heavy, heavy_ops + ["dw3x3"], 2), "cW"),
            ("G2xC8", nets.STARTS_Q, nets.SIGMA_Q, 2, "c8"),
            ("chain3xC4", nets.STARTS_Q[:2], nets.SIGMA_C, 3, "c4"),
            ("perfcascade3xCP", histories(big + [((1, 48, 48, 8), "int8")], nets.SIGMA_C, 3), "cP"),
            ("geometryxC2", geometry_histories(tier), "c2"), ("geometry2xC4", geometry2_histories(tier), "c4"), ("geometry3xC4", geometry3_histories(tier), "c4"), ("geometry4xC4", geometry4_histories(tier), "c4"), ("geometry5xC4", geometry5_histories(tier), "c4"), ("rareopsxC8", rareops_histories(tier), "c8"), ("cpualias4xC8", cpualias, "c8"), ("G1xCZ", nets.STARTS_T, nets.SIGMA_T, 1, "cZ"),
            ("fork3xC8", fork_histories(nets.STARTS_Q, nets.SIGMA_C + ["cpu_neg", "concat", "split"], mids, nets.SIGMA_C + ["cpu_neg", "concat", "reshape"]), "c8")]


_child_fn = None
_timeout = 120.0


def _init(fn, timeout):
    global _child_fn, _timeout
    core.bind_repo()
    _child_fn = fn
    _timeout = timeout


def _work(chunk):
    out = []
    for idx, case in chunk:
        t = time.time()
        res, text = isolate.run_forked(_child_fn, (case,), timeout=_timeout)
        if res[0] == "timeout":
            # re-run serially once with a longer limit before calling it a hang
            res, text = isolate.run_forked(_child_fn, (case,), timeout=_timeout * 3)
        out.append((idx, res, text[-4000:] if res[0] != "ok" else text[-1200:], time.time() - t))
    return out


def run_cases(cases, child_fn, timeout=120.0, seed=0, chunk=8):
    """Yields (case, res, text, secs) for every case; order of execution is shuffled by seed (coverage is not)."""
    idx = list(range(len(cases)))
    random.Random(seed).shuffle(idx)
    chunks = [[(i, cases[i]) for i in idx[k:k + chunk]] for k in range(0, len(idx), chunk)]
    for out in isolate.pmap(_work, chunks, init=_init, initargs=(child_fn, timeout)):
        for i, res, text, secs in out:
            yield cases[i], res, text, secs


def model_bytes(case, seed=0):
    m = nets.build(case["h"], seed)
    return build.serialise(m)


def case_name(case):
    h = case["h"]
    return "%s:%s>%s @%s" % ("x".join(map(str, h["start"][0])), h["start"][1], ">".join(h["steps"]), C.cfg_key(case["cfg"]))
