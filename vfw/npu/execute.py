"""Functional executor (DESIGN.md 3.4): integer-exact execution of emitted command streams over real bytes.

Everything is driven by the decoded register image; the side band only supplies the quantisation of elementwise
operands (ADD/SUB/MUL are evaluated with the TFLite reference kernel on the operands FETCHED through the programmed
addresses, see DESIGN.md) and is never used for addresses, shapes, weights, scales or tables."""
import numpy as np

from . import decode as D
from . import footprint as F
from . import isa
from . import tagmachine as TM
from ..ref import kernels as K
from ..ref import quant as Q
from ..ref import traversal as T


class StreamDefect(Exception):
    """the stored stream cannot be what the programmed operation consumes (a defect of the compiled output, not of the executor)"""


class Unsupported(Exception):
    pass


POISON = 0xA5


class Memory:
    def __init__(self, flash, scratch_size, fast_size, acc):
        self.m = {0: np.frombuffer(bytes(flash), dtype=np.uint8).copy(),
                  1: np.full(scratch_size + 256, POISON, dtype=np.uint8),
                  2: np.full(fast_size + 256, POISON, dtype=np.uint8),
                  "shram": np.full(isa.ACCELERATORS[acc]["banks"] * 1024, POISON, dtype=np.uint8)}

    def region(self, r):
        r = "shram" if r == D.SHRAM_REGION else r
        if r not in self.m:
            raise Unsupported("region %s" % r)
        return self.m[r]


def load_fm(mem, f, h, w, c0, c1):
    ea = TM.elem_addresses(f, h, w, c0, c1)
    m = mem.region(f.region)
    if ea.size and (ea.min() < 0 or ea.max() + f.esize > len(m)):
        raise Unsupported("fetch outside the region (C02's business)")
    if f.esize == 1:
        v = m[ea].astype(np.int64)
        if f.signed:
            v = np.where(v > 127, v - 256, v)
        return v
    b = np.zeros(ea.shape, dtype=np.int64)
    for k in range(f.esize):
        b |= m[ea + k].astype(np.int64) << (8 * k)
    if f.signed:
        top = 1 << (8 * f.esize - 1)
        b = np.where(b >= top, b - (top << 1), b)
    return b


def store_fm(mem, f, vals):
    h, w, c = vals.shape
    ea = TM.elem_addresses(f, h, w, 0, c)
    m = mem.region(f.region)
    if ea.size and (ea.min() < 0 or ea.max() + f.esize > len(m)):
        raise Unsupported("store outside the region (C02's business)")
    v = vals.astype(np.int64) & ((1 << (8 * f.esize)) - 1)
    for k in range(f.esize):
        m[ea + k] = ((v >> (8 * k)) & 0xFF).astype(np.uint8)


def scale_round(acc, scale, shift, mode):
    """requantise accumulators by (scale, shift); mode 0 TFL (double rounding), 1 truncate, 2 natural"""
    acc = np.asarray(acc, dtype=np.int64)
    if mode == 0:
        if shift < 31:
            # no second rounding stage below bit 31: one round-half-away shift of the exact 64-bit product, nothing saturates
            out = []
            for v in acc.reshape(-1):
                p = int(v) * int(scale)
                if shift == 0:
                    out.append(p)
                else:
                    q = (abs(p) + (1 << (shift - 1))) >> shift
                    out.append(q if p >= 0 else -q)
            return np.array(out, dtype=np.int64).reshape(acc.shape)
        return K.mbqm_arr(acc, scale, 31 - shift)
    prod = acc.astype(object) * int(scale)
    if shift == 0:
        return prod.astype(np.int64)
    if mode == 2:
        return np.array([(int(p) + (1 << (shift - 1))) >> shift for p in prod.reshape(-1)], dtype=np.int64).reshape(acc.shape)
    return np.array([(int(p) >> shift) if p >= 0 else -((-int(p)) >> shift) for p in prod.reshape(-1)], dtype=np.int64).reshape(acc.shape)


def _wide_tfl(v, scale, shift):
    """TFL rounding of v * scale / 2^shift for a wide v: round-half-away at bit 31, then round-half-away rounding shift"""
    p = v * scale
    nudge = (1 << 30) if p >= 0 else (1 - (1 << 30))
    t = p + nudge
    hi = t >> 31 if t >= 0 else -((-t) >> 31)
    rs = shift - 31
    if rs <= 0:
        return hi << (-rs)
    mask = (1 << rs) - 1
    rem = hi & mask
    thr = (mask >> 1) + (1 if hi < 0 else 0)
    return (hi >> rs) + (1 if rem > thr else 0)


def ozp(o):
    """OFM zero point as applied: 32-bit results carry no zero point (the compiler reads every 32-bit IFM with zero point 0,
    so a producer adding one would be inconsistent with every consumer) - assumption A-exec-3 in DESIGN.md"""
    return 0 if o.bits == 32 else o.zp


def ofm_range(o):
    if o.signed:
        return -(1 << (o.bits - 1)), (1 << (o.bits - 1)) - 1
    return 0, (1 << o.bits) - 1


def apply_activation(mem, op, o, v, acc):
    lo, hi = D.s16(op.r("ACTIVATION_MIN")), D.s16(op.r("ACTIVATION_MAX"))
    if not o.signed and o.bits == 8:
        lo, hi = op.r("ACTIVATION_MIN"), op.r("ACTIVATION_MAX")
        lo = lo if lo < 0x8000 else lo - 0x10000
    rlo, rhi = ofm_range(o)
    if o.bits == 32:
        # the 16-bit ACTIVATION_MIN/MAX registers cannot express a 32-bit range: 32-bit results are only saturated to int32
        v = np.clip(v, rlo, rhi)
    else:
        v = np.clip(v, max(lo, rlo), min(hi, rhi))
    a = op.r("ACTIVATION") & 0x1F
    if a in (3, 4):
        raise Unsupported("hardware tanh/sigmoid activation")
    if a >= 16:
        if o.bits != 8:
            raise Unsupported("16/32-bit table lookup")
        s_lo, s_hi = F.lut_slot_interval(acc, a - 16)
        table = mem.region("shram")[s_lo:s_hi].astype(np.int64)
        if o.signed:
            table = np.where(table > 127, table - 256, table)
            v = table[(v + 128).astype(np.int64)]
        else:
            v = table[v.astype(np.int64)]
    return v


def fetch_window_input(mem, op, f):
    """IFM after zero-point subtraction, upscaling and zero padding: array [H, W, C] plus validity mask"""
    x = load_fm(mem, f, f.height, f.width, 0, f.depth) - f.zp
    up = op.r("IFM_UPSCALE")
    if up == 1:
        x = np.repeat(np.repeat(x, 2, axis=0), 2, axis=1)
    elif up == 2:
        # TRANSPOSE upscaling: a zero (the zero point, already subtracted) after every element in both axes
        z = np.zeros((x.shape[0] * 2, x.shape[1] * 2, x.shape[2]), dtype=x.dtype)
        z[::2, ::2, :] = x
        x = z
    pt, pb, pl, pr = op.r("IFM_PAD_TOP"), op.r("IFM_PAD_BOTTOM"), op.r("IFM_PAD_LEFT"), op.r("IFM_PAD_RIGHT")
    k = D.kernel_of(op)
    o_h, o_w = op.r("OFM_HEIGHT_M1") + 1, op.r("OFM_WIDTH_M1") + 1
    need_h = (o_h - 1) * k["sy"] + k["dkh"] - pt - pb
    need_w = (o_w - 1) * k["sx"] + k["dkw"] - pl - pr
    x = x[:max(need_h, 0), :max(need_w, 0), :]
    if x.shape[0] < need_h or x.shape[1] < need_w:
        raise Unsupported("IFM smaller than the window sweep")
    valid = np.ones(x.shape[:2], dtype=bool)
    x = np.pad(x, ((pt, pb), (pl, pr), (0, 0)))
    valid = np.pad(valid, ((pt, pb), (pl, pr)))
    return x, valid, k, o_h, o_w


def read_scales(mem, op, acc, nch):
    """per-channel (bias, scale, shift) from the scale streams (10-byte records, channels interleaved over cores)"""
    ncores = isa.ACCELERATORS[acc]["cores"]
    rngs = D.scale_ranges(op, ncores)
    bias = np.zeros(nch, dtype=np.int64)
    scale = np.zeros(nch, dtype=np.int64)
    shift = np.zeros(nch, dtype=np.int64)
    if not rngs:
        raise Unsupported("no scale stream")
    for core, (region, base, ln) in enumerate(rngs):
        raw = mem.region(region)[base:base + ln]
        chans = list(range(core, nch, len(rngs)))
        if len(raw) < 10 * len(chans):
            raise StreamDefect("the scale stream programmed for core %d of this operation (%d bytes at %#x, region %s) is shorter than the %d records of 10 bytes "
                               "its channels need" % (core, ln, base, region, len(chans)))
        for j, ch in enumerate(chans):
            r = raw[10 * j:10 * j + 10].astype(np.int64)
            b = int(r[0] | (r[1] << 8) | (r[2] << 16) | (r[3] << 24) | (r[4] << 32))
            if b & (1 << 39):
                b -= 1 << 40
            bias[ch] = b
            scale[ch] = int(r[5] | (r[6] << 8) | (r[7] << 16) | (r[8] << 24))
            shift[ch] = int(r[9] & 0x3F)
    return bias, scale, shift


def read_weights(mem, op, acc, nch, kh, kw, ifm_depth, depthwise, part_kernel, ifm_bits, dil):
    core_facts = isa.ACCELERATORS[acc]
    ncores = core_facts["cores"]
    rngs = D.weight_ranges(op, ncores)
    if not rngs:
        raise Unsupported("no weight stream")
    from ethosu import mlw_codec  # the tree's reference stream decoder (validated by C07)

    blkd = op.r("OFM_BLK_DEPTH_M1") + 1
    W = np.zeros((nch, kh, kw, 1 if depthwise else ifm_depth), dtype=np.int64)
    for core, (region, base, ln) in enumerate(rngs):
        raw = bytearray(mem.region(region)[base:base + ln].tobytes())
        dec = np.asarray(mlw_codec.decode(raw), dtype=np.int64)
        chans = list(range(core, nch, len(rngs)))
        cbd = (blkd + len(rngs) - 1 - core) // len(rngs)
        w, ok = T.unreorder(dec, len(chans), kh, kw, 1 if depthwise else ifm_depth, ofm_block_depth=cbd, ifm_ublock_depth=core_facts["ifm_ublock"][2],
                            ofm_ublock_depth=core_facts["ofm_ublock"][2], is_depthwise=depthwise, is_partkernel=part_kernel, ifm_bits=ifm_bits,
                            decomp_h=8 // dil[1], decomp_w=8 // dil[0])
        if not ok:
            raise StreamDefect("the weight stream programmed for this operation (%d bytes at %#x, region %s) does not decode to a weight volume of %d channels x %dx%dx%d with block depth %d "
                               "(short stream or non-zero padding)" % (ln, base, region, len(chans), kh, kw, 1 if depthwise else ifm_depth, cbd))
        W[chans] = w
    return W


def exec_kernel(mem, op, c, acc):
    o = D.ofm_of(op)
    f = D.ifm_of(op)
    mode = (op.r("OFM_PRECISION") >> 14) & 3
    if op.kind in ("conv", "depthwise"):
        x, valid, k, oh, ow = fetch_window_input(mem, op, f)
        dil = (k["dx"], k["dy"])
        kh, kw = (k["dkh"] - 1) // k["dy"] + 1, (k["dkw"] - 1) // k["dx"] + 1
        nch = o.depth
        W = read_weights(mem, op, acc, nch, kh, kw, f.depth, op.kind == "depthwise", k["part_kernel"], f.bits, dil)
        bias, scale, shift = read_scales(mem, op, acc, nch)
        accu = np.zeros((oh, ow, nch), dtype=np.int64)
        for ky in range(kh):
            for kx in range(kw):
                patch = x[ky * k["dy"]: ky * k["dy"] + (oh - 1) * k["sy"] + 1: k["sy"], kx * k["dx"]: kx * k["dx"] + (ow - 1) * k["sx"] + 1: k["sx"], :]
                if op.kind == "depthwise":
                    accu += patch[:, :, :nch] * W[:, ky, kx, 0]
                else:
                    accu += np.tensordot(patch, W[:, ky, kx, :], axes=([2], [1]))
        accu += bias
        out = np.zeros_like(accu)
        for ch in range(nch):
            # 16-bit MACs accumulate in 40 bits and are scaled by the reduced multiplier without 32-bit saturation
            out[..., ch] = scale_round(accu[..., ch], int(scale[ch]), int(shift[ch]), 2 if f.bits == 16 else mode)
        out += ozp(o)
        out = apply_activation(mem, op, o, out, acc)
        store_fm(mem, o, out)
        return
    if op.kind == "pool":
        x, valid, k, oh, ow = fetch_window_input(mem, op, f)
        kh, kw = k["dkh"], k["dkw"]
        if op.sub == "REDUCE_SUM":
            raise Unsupported("REDUCE_SUM")
        nch = o.depth
        out = np.zeros((oh, ow, nch), dtype=np.int64)
        global_scale = bool(op.r("OFM_PRECISION") & (1 << 8))
        if op.sub == "MAX":
            xm = np.where(valid[:, :, None], x, -(1 << 40))
            for oy in range(oh):
                for ox in range(ow):
                    out[oy, ox] = xm[oy * k["sy"]: oy * k["sy"] + kh, ox * k["sx"]: ox * k["sx"] + kw].max(axis=(0, 1))
            out += f.zp  # max pooling passes values through (zero points equal)
            out = out - f.zp + o.zp if False else out
        else:
            s, sh = op.r("OFM_SCALE", (1, 0))
            for oy in range(oh):
                for ox in range(ow):
                    win = x[oy * k["sy"]: oy * k["sy"] + kh, ox * k["sx"]: ox * k["sx"] + kw]
                    a = win.sum(axis=(0, 1))
                    if global_scale:
                        out[oy, ox] = scale_round(a, s, sh, mode)
                    else:
                        cnt = int(valid[oy * k["sy"]: oy * k["sy"] + kh, ox * k["sx"]: ox * k["sx"] + kw].sum())
                        out[oy, ox] = np.where(a > 0, (a + cnt // 2) // cnt, -((-a + cnt // 2) // cnt))
            out += ozp(o)
        out = apply_activation(mem, op, o, out, acc)
        store_fm(mem, o, out)
        return
    if op.kind == "elementwise":
        if op.sub not in ("ADD", "SUB", "MUL", "MIN", "MAX"):
            raise Unsupported("elementwise %s" % op.sub)
        a = load_fm(mem, f, o.height, o.width, 0, o.depth)
        bc = op.r("IFM2_BROADCAST")
        q = c.get("quant") if c else None
        if q is None:
            raise Unsupported("no operand quantisation for elementwise")
        if bc & 0x80:
            sval = D.s16(op.r("IFM2_SCALAR")) if (op.r("IFM2_PRECISION") & 1) else op.r("IFM2_SCALAR")
            b = np.full(a.shape, sval, dtype=np.int64)
        else:
            f2 = D.ifm_of(op, "2")
            b = np.broadcast_to(load_fm(mem, f2, f2.height, f2.width, 0, f2.depth), a.shape)
        if bc & 0x40:
            a, b = b, a
            qa, qb = q["ifm2"], q["ifm"]
        else:
            qa, qb = q["ifm"], q["ifm2"]
        dt = {(8, True): "int8", (8, False): "uint8", (16, True): "int16", (32, True): "int32"}[(o.bits, o.signed)]
        if f.bits == 32:
            # register-level evaluation: 32-bit operands are not rescaled (OPA/OPB scaling applies to 8/16-bit operands only);
            # the result is requantised by the global OFM scale with the programmed rounding mode
            if op.sub not in ("ADD", "SUB", "MUL"):
                raise Unsupported("32-bit elementwise %s" % op.sub)
            if (op.r("ACTIVATION") & 0x1F) != 0:
                raise Unsupported("32-bit elementwise with activation function")
            za = f.zp
            zb = D.s16(op.r("IFM2_ZERO_POINT")) if not (bc & 0x80) else D.s16(op.r("IFM2_ZERO_POINT"))
            if bc & 0x40:
                za, zb = zb, za
            a0, b0 = a - za, b - zb
            r = a0 * b0 if op.sub == "MUL" else (a0 + b0 if op.sub == "ADD" else a0 - b0)
            if np.abs(r).max(initial=0) >= (1 << 62):
                raise Unsupported("32-bit product beyond 62 bits")
            ofm_prec = op.r("OFM_PRECISION")
            if ofm_prec & (1 << 8):
                sc, sh = op.r("OFM_SCALE", (1, 0))
                mode = (ofm_prec >> 14) & 3
                if op.sub == "MUL" and sc != 1:
                    # the SQUARED_DIFFERENCE lowering programs a multiplier for a 32-bit MUL and states that the hardware ignores it; whether it
                    # does cannot be pinned offline, so such a stream is not judged
                    raise Unsupported("32-bit multiply with a scale multiplier")
                if mode == 0 and (np.abs(r).max(initial=0) >= (1 << 31) or sc >= (1 << 31)):
                    # double rounding on a wide product: SRDHM of the two factors, then the rounding shift
                    r = np.array([_wide_tfl(int(v), int(sc), int(sh)) for v in r.reshape(-1)], dtype=np.int64).reshape(r.shape)
                else:
                    r = scale_round(r, sc, sh, mode)
            r = r + ozp(o)
            r = apply_activation(mem, op, o, r, acc)
            store_fm(mem, o, r)
            return
        if dt == "int32":
            raise Unsupported("8/16-bit elementwise with 32-bit result")
        lut = (op.r("ACTIVATION") & 0x1F) >= 16
        oq = q["ofm"]
        if op.sub in ("MIN", "MAX"):
            # zero points are removed when the operands are fetched and the OFM zero point is added to the result (register level): with
            # equal zero points - the only case a TFLite MINIMUM / MAXIMUM allows - this is the raw minimum / maximum; the PRELU lowering
            # compares a tensor with a non-zero zero point against a scalar 0 with zero point 0
            za = f.zp
            zb = D.s16(op.r("IFM2_ZERO_POINT"))
            if bc & 0x40:
                za, zb = zb, za
            r = (np.minimum(a - za, b - zb) if op.sub == "MIN" else np.maximum(a - za, b - zb)) + o.zp
        elif lut and op.sub == "ADD" and bool(bc & 0x80) and sval == qb["zp"]:
            # table-lookup no-op ADD with scalar zero: the pre-table value is the IFM value itself
            r = a
        elif None in (qa["scale"], qb["scale"], oq["scale"]):
            raise Unsupported("unscaled elementwise")
        elif op.sub == "MUL":
            r = K.mul(a, b, dict(scale=[qa["scale"]], zp=[qa["zp"]]), dict(scale=[qb["scale"]], zp=[qb["zp"]]), dict(scale=[oq["scale"]], zp=[oq["zp"]]), {}, dt)
        else:
            r = K.add_sub(a, b, dict(scale=[qa["scale"]], zp=[qa["zp"]]), dict(scale=[qb["scale"]], zp=[qb["zp"]]), dict(scale=[oq["scale"]], zp=[oq["zp"]]), {}, dt, sub=(op.sub == "SUB"))
        r = apply_activation(mem, op, o, r, acc)
        store_fm(mem, o, r)
        return
    raise Unsupported(op.kind)


def exec_dma(mem, op):
    d = D.dma_of(op)
    src = mem.region(d["src_region"])
    dst = mem.region(d["dst_region"])
    n = d["length"]
    if d["src"] + n > len(src) or d["dst"] + n > len(dst):
        raise Unsupported("DMA outside the region (C02's business)")
    dst[d["dst"]:d["dst"] + n] = src[d["src"]:d["src"] + n].copy()


def run_stream(mem, ops, cmds, acc):
    for i, op in enumerate(ops):
        if op.kind == "dma":
            exec_dma(mem, op)
        else:
            exec_kernel(mem, op, cmds[i] if cmds else None, acc)
