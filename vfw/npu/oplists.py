"""Operation-list alphabet for the public command-stream generator (C04, C06, C15).

Specs are plain dicts (JSON-able, so they can live in replay files); build_op() turns one into an api.Npu*Operation."""

DT = {"u8": "UINT8", "i8": "INT8", "u16": "UINT16", "i16": "INT16", "i32": "INT32"}
ESZ = {"u8": 1, "i8": 1, "u16": 2, "i16": 2, "i32": 4}


def fm(shape, addr, region=1, dt="i8", layout="NHWC", zp=0, scale=0.02, tiles=None, strides=None, noquant=False):
    return dict(shape=list(shape), addr=addr, region=region, dt=dt, layout=layout, zp=zp, scale=scale, tiles=tiles, strides=strides, noquant=noquant)


def build_fm(api, s):
    f = api.NpuFeatureMap()
    f.data_type = getattr(api.NpuDataType, DT[s["dt"]])
    h, w, c = s["shape"]
    f.shape = api.NpuShape3D(height=h, width=w, depth=c)
    if s.get("tiles"):
        t = s["tiles"]
        f.tiles = api.NpuTileBox(height_0=t["h0"], height_1=t["h1"], width_0=t["w0"], addresses=list(t["addr"]))
    else:
        f.tiles = api.NpuTileBox(height_0=h, height_1=h, width_0=w, addresses=[s["addr"], 0, 0, 0])
    f.region = s["region"]
    f.layout = getattr(api.NpuLayout, s["layout"])
    f.quantization = None if s.get("noquant") else api.NpuQuantization(scale_f32=s["scale"], zero_point=s["zp"])
    if s.get("strides"):
        sy, sx, sc = s["strides"]
        f.strides = api.NpuShape3D(height=sy, width=sx, depth=sc)
    return f


def build_op(api, spec, acc_enum):
    k = spec["kind"]
    if k == "dma":
        op = api.NpuDmaOperation(api.NpuAddressRange(*spec["src"]), api.NpuAddressRange(*spec["dst"]))
        op.channel, op.mode = spec.get("channel", 0), spec.get("mode", 0)
        return op
    if k == "conv":
        op = api.NpuConv2DOperation()
        op.block_traversal = getattr(api.NpuBlockTraversal, spec.get("traversal", "DEPTH_FIRST"))
    elif k == "depthwise":
        op = api.NpuConvDepthWiseOperation()
    elif k == "pool":
        op = api.NpuPoolingOperation(getattr(api.NpuPoolingOp, spec["sub"]))
        r = spec.get("rescale")
        if isinstance(r, dict):  # Vela-internal explicit scaling (what the compiler itself passes for fused rescales)
            from ethosu.vela.operation import ExplicitScaling

            op.rescale = ExplicitScaling(bool(r.get("per_channel")), list(r["shift"]), list(r["mult"]))
        elif r is not None:
            op.rescale = r
    elif k == "elementwise":
        op = api.NpuElementWiseOperation(getattr(api.NpuElementWiseOp, spec["sub"]))
        op.reversed_operands = bool(spec.get("reversed"))
        if spec.get("rescale") is not None:
            op.rescale = tuple(spec["rescale"])
    else:
        raise ValueError(k)
    op.ifm = build_fm(api, spec["ifm"])
    op.ofm = build_fm(api, spec["ofm"])
    if spec.get("ifm2"):
        op.ifm2 = build_fm(api, spec["ifm2"])
    if spec.get("scalar") is not None:
        op.ifm2_scalar = spec["scalar"]
    if spec.get("kernel"):
        op.kernel = api.NpuKernel(*spec["kernel"])
    if spec.get("pad") is not None:
        t, l, b, r = spec["pad"]
        op.padding = api.NpuPadding(top=t, left=l, bottom=b, right=r)
    op.weights = [api.NpuAddressRange(*w) for w in spec.get("weights", [])]
    op.biases = [api.NpuAddressRange(*w) for w in spec.get("biases", [])]
    a = spec.get("act")
    if a:
        act = api.NpuActivation(getattr(api.NpuActivationOp, a["op"]))
        act.min, act.max = a.get("min"), a.get("max")
        act.lookup_table_index = a.get("lut", 0)
        op.activation = act
    op.rounding_mode = getattr(api.NpuRoundingMode, spec.get("rounding", "TFL"))
    op.ifm_upscale = getattr(api.NpuResamplingMode, spec.get("upscale", "NONE"))
    op.fused_quantize = bool(spec.get("fused_quantize"))
    blk = spec.get("block", "first")
    if isinstance(blk, (list, tuple)):
        op.block_config = api.NpuShape3D(height=blk[0], width=blk[1], depth=blk[2])
    else:
        cfgs = api.npu_find_block_configs(op, acc_enum)
        if not cfgs:
            return None
        if blk == "first":
            op.block_config = cfgs[0]
        elif blk == "last":
            op.block_config = cfgs[-1]
        elif blk == "smallest":
            op.block_config = min(cfgs, key=lambda c: (c.height * c.width * c.depth, c))
        else:
            op.block_config = max(cfgs, key=lambda c: (c.height * c.width * c.depth, c))
    return op


def acc_enum(api, acc):
    return {"ethos-u65-512": api.NpuAccelerator.Ethos_U65_512, "ethos-u65-256": api.NpuAccelerator.Ethos_U65_256,
            "ethos-u55-256": api.NpuAccelerator.Ethos_U55_256, "ethos-u55-128": api.NpuAccelerator.Ethos_U55_128,
            "ethos-u55-64": api.NpuAccelerator.Ethos_U55_64, "ethos-u55-32": api.NpuAccelerator.Ethos_U55_32}[acc]


# ----------------------------------------------------------------------------------------------
# Alphabet forced to collide: buffers X, Y, Z in region 1 (Z overlaps the tail of Y), W weight buffer, flash region 0.
X, Y, Z, W = 0x0000, 0x4000, 0x5000, 0xC000
LUT_SHRAM = 0x103


def conv_spec(src, dst, k=(3, 3), s=(1, 1), pad=(1, 1, 1, 1), hw=(16, 16), cin=8, cout=8, wreg=0, waddr=0x100, block="smallest", layout="NHWC", act=None, dt="i8", trav="DEPTH_FIRST", dil=(1, 1)):
    kw, kh = k
    oh = (hw[0] + pad[0] + pad[2] - (dil[1] * (kh - 1) + 1)) // s[1] + 1
    ow = (hw[1] + pad[1] + pad[3] - (dil[0] * (kw - 1) + 1)) // s[0] + 1
    return dict(kind="conv", ifm=fm((hw[0], hw[1], cin), src, dt=dt, layout=layout), ofm=fm((oh, ow, cout), dst, dt=dt, layout=layout),
                kernel=[kw, kh, s[0], s[1], dil[0], dil[1]], pad=list(pad), weights=[[wreg, waddr, 1024]], biases=[[0, 0x80, 96]], block=block,
                traversal=trav, act=act)


def dma_spec(sreg, src, dreg, dst, ln):
    return dict(kind="dma", src=[sreg, src, ln], dst=[dreg, dst, ln])


def ew_spec(sub, a, b, dst, hw=(16, 16), c=8, scalar=None, act=None, block="smallest", layout="NHWC", dt="i8", bshape=None, reversed_=False):
    s = dict(kind="elementwise", sub=sub, ifm=fm((hw[0], hw[1], c), a, dt=dt, layout=layout), ofm=fm((hw[0], hw[1], c), dst, dt=dt, layout=layout), act=act, block=block)
    if sub not in ("ABS", "LRELU", "CLZ"):
        if scalar is not None:
            s["ifm2"] = fm((1, 1, 1), 0, dt=dt)
            s["scalar"] = scalar
        else:
            s["ifm2"] = fm(bshape or (hw[0], hw[1], c), b, dt=dt, layout=layout)
    if reversed_:
        s["reversed"] = True
    return s


def pool_spec(sub, src, dst, k=(2, 2), s=(2, 2), hw=(16, 16), c=8, pad=(0, 0, 0, 0), act=None, block="smallest", layout="NHWC", dt="i8", upscale="NONE"):
    uh, uw = (hw[0] * 2, hw[1] * 2) if upscale != "NONE" else hw
    oh = (uh + pad[0] + pad[2] - k[1]) // s[1] + 1
    ow = (uw + pad[1] + pad[3] - k[0]) // s[0] + 1
    return dict(kind="pool", sub=sub, ifm=fm((hw[0], hw[1], c), src, dt=dt, layout=layout), ofm=fm((oh, ow, c), dst, dt=dt, layout=layout),
                kernel=[k[0], k[1], s[0], s[1], 1, 1], pad=list(pad), act=act, block=block, upscale=upscale)


LUT_ACT = dict(op="TABLE_LOOKUP", lut=0)


def hazard_alphabet():
    """~30 concrete ops over aliasing buffers (DESIGN.md C04)."""
    A = []
    A.append(("dmaX>Y", dma_spec(1, X, 1, Y, 2048)))
    A.append(("dmaF>W", dma_spec(0, 0x100, 1, W, 1024)))
    A.append(("dmaF>W2", dma_spec(0, 0x800, 1, W + 1024, 1024)))
    A.append(("dmaF>LUT", dma_spec(0, 0x1000, LUT_SHRAM, None, 256)))  # dst filled per accelerator
    A.append(("dmaY>X", dma_spec(1, Y, 1, X, 2048)))
    A.append(("dmaZ>X", dma_spec(1, Z, 1, X + 2048, 1024)))
    A.append(("convX>Y", conv_spec(X, Y)))
    A.append(("convY>X", conv_spec(Y, X)))
    A.append(("convX>Y_w", conv_spec(X, Y, wreg=1, waddr=W)))
    A.append(("convY>Z_w2", conv_spec(Y, Z, wreg=1, waddr=W + 1024)))
    A.append(("conv3x1X>Y", conv_spec(X, Y, k=(1, 3), pad=(1, 0, 1, 0))))
    A.append(("conv1x3Y>X", conv_spec(Y, X, k=(3, 1), pad=(0, 1, 0, 1))))
    A.append(("convX>Y_padtop", conv_spec(X, Y, k=(3, 3), pad=(2, 0, 0, 2))))
    A.append(("convY>X_padtop", conv_spec(Y, X, k=(3, 3), pad=(2, 0, 0, 2))))
    A.append(("convX>Y_s2", conv_spec(X, Y, s=(2, 2), pad=(0, 0, 1, 1))))
    # anisotropic strides (x stride larger than y stride and the reverse): the first jobs of the consumer reach further in x
    A.append(("convY>X_s3x1", conv_spec(Y, X, s=(3, 1), pad=(1, 1, 1, 1))))
    A.append(("convY>X_s1x3", conv_spec(Y, X, s=(1, 3), pad=(1, 1, 1, 1))))
    A.append(("maxpoolY>X_s3x1", pool_spec("MAX", Y, X, k=(3, 3), s=(3, 1), pad=(1, 1, 1, 1))))
    # one-row and two-column maps with anisotropic strides: the consumer has only two or three blocks along the axis with the larger stride, so where its
    # second and third jobs read depends on the stride of exactly that axis
    A.append(("convX>Y_1x64", conv_spec(X, Y, k=(1, 1), pad=(0, 0, 0, 0), hw=(1, 64), cin=16, cout=16)))
    A.append(("convY>X_1x64_s2x1", conv_spec(Y, X, k=(1, 1), s=(2, 1), pad=(0, 0, 0, 0), hw=(1, 64), cin=16, cout=16)))
    A.append(("convX>Y_1x96", conv_spec(X, Y, k=(1, 1), pad=(0, 0, 0, 0), hw=(1, 96), cin=16, cout=16)))
    A.append(("convY>X_1x96_k3x1_s3x1", conv_spec(Y, X, k=(3, 1), s=(3, 1), pad=(0, 1, 0, 1), hw=(1, 96), cin=16, cout=16)))
    A.append(("convX>Y_48x2", conv_spec(X, Y, k=(1, 1), pad=(0, 0, 0, 0), hw=(48, 2), cin=16, cout=16)))
    A.append(("convY>X_48x2_s1x3", conv_spec(Y, X, k=(1, 1), s=(1, 3), pad=(0, 0, 0, 0), hw=(48, 2), cin=16, cout=16)))
    A.append(("maxpoolY>X_s2x1_big", pool_spec("MAX", Y, X, k=(2, 2), s=(2, 1), block="largest")))
    A.append(("convY>X_big", conv_spec(Y, X, block="largest")))
    A.append(("convX>Z", conv_spec(X, Z)))
    A.append(("convZ>X", conv_spec(Z, X)))
    A.append(("convX>Y_b16", conv_spec(X, Y, layout="NHCWB16", cin=16, cout=16)))
    A.append(("convY>X_b16", conv_spec(Y, X, layout="NHCWB16", cin=16, cout=16)))
    A.append(("addXY>X", ew_spec("ADD", X, Y, X)))
    A.append(("addYZ>Y", ew_spec("ADD", Y, Z, Y)))
    A.append(("mulXs>X", ew_spec("MUL", X, None, X, scalar=2.0)))
    A.append(("absY>Y", ew_spec("ABS", Y, None, Y)))
    A.append(("addXs>Y_lut", ew_spec("ADD", X, None, Y, scalar=0.0, act=LUT_ACT)))
    A.append(("addYs>X_lut", ew_spec("ADD", Y, None, X, scalar=0.0, act=LUT_ACT)))
    A.append(("maxpoolX>Y", pool_spec("MAX", X, Y)))
    A.append(("avgpoolY>X", pool_spec("AVERAGE", Y, X)))
    A.append(("maxpoolY>Z_lut", pool_spec("MAX", Y, Z, k=(1, 1), s=(1, 1), act=LUT_ACT)))
    A.append(("addX_bcast>Y", ew_spec("ADD", X, Z, Y, bshape=(1, 1, 8))))
    # depth-sliced producers followed by REDUCE_SUM (reads the whole IFM depth, OFM depth 1)
    A.append(("convX>Y_c24", conv_spec(X, Y, hw=(4, 8), cin=8, cout=24, block=(4, 8, 16))))
    A.append(("addXs>Y_c24", ew_spec("ADD", X, None, Y, hw=(4, 8), c=24, scalar=1.0, block=(4, 8, 16))))
    # ranges nested inside other ranges of the same operation (broadcast operand inside the IFM buffer; four tiles over one
    # contiguous buffer) and transfers that touch only the tail of such a buffer
    A.append(("addX_bcastinX>Y", ew_spec("ADD", X, X + 16, Y, bshape=(1, 1, 8))))
    # both operands are windows of ONE buffer (upper and lower half of X, as after a SPLIT along the height): the dependency on the producer of X
    # runs through the operand that holds the rows written last - IFM2 in the first, IFM in the second
    A.append(("addXtopXbot>Y", ew_spec("ADD", X, X + 1024, Y, hw=(8, 16), block="largest")))
    A.append(("addXbotXtop>Y", ew_spec("ADD", X + 1024, X, Y, hw=(8, 16), block="largest")))
    # ... and the first two / the last two rows of X: the very first job of the consumer reads what the last job of the producer of X writes
    A.append(("addXfirstXlast>Y", ew_spec("ADD", X, X + 14 * 128, Y, hw=(2, 16), block="largest")))
    A.append(("addXlastXfirst>Y", ew_spec("ADD", X + 14 * 128, X, Y, hw=(2, 16), block="largest")))
    A.append(("convY>X_4x16", conv_spec(Y, X, block=(4, 16, 8))))
    A.append(("dmaY>Xtail", dma_spec(1, Y, 1, X + 1024, 1024)))
    A.append(("dmaXtail>Z", dma_spec(1, X + 1024, 1, Z, 1024)))
    A.append(("dmaF>Xtail", dma_spec(0, 0x2000, 1, X + 1024, 1024)))
    A.append(("dmaF>Xhead", dma_spec(0, 0x2000, 1, X, 512)))
    t4 = conv_spec(X, Y)
    t4["ifm"]["tiles"] = dict(h0=8, h1=8, w0=8, addr=[X, X + 64, X + 1024, X + 1088])
    A.append(("convX4tiles>Y", t4))
    t4o = conv_spec(Y, X)
    t4o["ofm"]["tiles"] = dict(h0=8, h1=8, w0=8, addr=[X, X + 64, X + 1024, X + 1088])
    A.append(("convY>X4tiles", t4o))
    # four tiles of unequal heights (tile 1 taller than tile 0, both shorter than the feature map), tile 1 in another buffer, and transfers
    # that touch only the rows of tile 1 below the end of tile 0
    t4b = conv_spec(X, Y)
    t4b["ifm"]["tiles"] = dict(h0=4, h1=10, w0=8, addr=[X, Z, X + 4 * 128, X + 10 * 128 + 64])
    A.append(("convX4tilesB>Y", t4b))
    t4bo = conv_spec(Y, X)
    t4bo["ofm"]["tiles"] = dict(h0=4, h1=10, w0=8, addr=[X, Z, X + 4 * 128, X + 10 * 128 + 64])
    A.append(("convY>X4tilesB", t4bo))
    A.append(("dmaF>Zt1mid", dma_spec(0, 0x2000, 1, Z + 4 * 128, 6 * 128 - 64)))
    A.append(("dmaZt1mid>W", dma_spec(1, Z + 4 * 128, 1, W, 6 * 128 - 64)))
    # a consumer that sees buffer X through tiles that rotate its rows (the first logical rows live at the end of the buffer) (same shape and layout as the producer's view,
    # different tile boxes): its first block jobs read what the producer writes last
    sw = conv_spec(X, Y)
    sw["ifm"]["tiles"] = dict(h0=2, h1=2, w0=16, addr=[X + 14 * 128, 0, X, 0])
    A.append(("convXswapped>Y", sw))
    swo = conv_spec(Y, X)
    swo["ofm"]["tiles"] = dict(h0=14, h1=14, w0=16, addr=[X + 2 * 128, 0, X, 0])
    A.append(("convY>Xswapped", swo))
    rs = pool_spec("REDUCE_SUM", Y, X, k=(1, 1), s=(1, 1), hw=(4, 8), c=24)
    rs["ofm"] = fm((4, 8, 1), X)
    A.append(("rsumY>X_c24", rs))
    return A
