"""Pinned hardware facts (copied once from the unchanged tree; the checks never read them from /repo,
so a change to ethos_u55_regs.py / architecture_features.py cannot move the oracle with the code)."""

ARCH_VERSION = (1, 0, 6)

# name -> facts.  granules: [IFM8, IFM16, IFM8_EW, IFM16_EW, IFM32, Acc16, Acc32, Acc40]
ACCELERATORS = {
    "ethos-u65-512": dict(product=1, macs=256, cores=2, ofm_ublock=(2, 2, 8), ifm_ublock=(2, 2, 8), banks=48,
                          granules=[8, 8, 8, 8, 16, 8, 16, 20], max_dma=2, addr_bits=40),
    "ethos-u65-256": dict(product=1, macs=256, cores=1, ofm_ublock=(2, 2, 8), ifm_ublock=(2, 2, 8), banks=48,
                          granules=[8, 8, 8, 8, 16, 8, 16, 20], max_dma=2, addr_bits=40),
    "ethos-u55-256": dict(product=0, macs=256, cores=1, ofm_ublock=(2, 2, 8), ifm_ublock=(2, 2, 8), banks=48,
                          granules=[8, 8, 8, 8, 16, 8, 16, 20], max_dma=1, addr_bits=32),
    "ethos-u55-128": dict(product=0, macs=128, cores=1, ofm_ublock=(2, 1, 8), ifm_ublock=(2, 1, 8), banks=24,
                          granules=[4, 4, 4, 4, 8, 4, 8, 12], max_dma=1, addr_bits=32),
    "ethos-u55-64": dict(product=0, macs=64, cores=1, ofm_ublock=(1, 1, 8), ifm_ublock=(1, 1, 8), banks=16,
                         granules=[2, 2, 2, 2, 4, 4, 4, 8], max_dma=1, addr_bits=32),
    "ethos-u55-32": dict(product=0, macs=32, cores=1, ofm_ublock=(1, 1, 4), ifm_ublock=(1, 1, 8), banks=16,
                         granules=[2, 2, 2, 2, 4, 4, 4, 4], max_dma=1, addr_bits=32),
}
# ublock tuples are (width, height, depth)
MAX_OUTSTANDING_KERNELS = 2
MAX_BLOCKDEP = 3
MAX_BLOCK = (64, 32, 128)  # w, h, d
SHRAM_BANK_BYTES = 1024

# driver actions
DA_CONFIG, DA_CMDSTREAM, DA_NOP = 0x01, 0x02, 0x05
FOURCC_COP1 = 0x31504F43
