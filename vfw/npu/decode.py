"""Decoder: driver payload / command words -> register-file machine -> frozen HwOp at every NPU_OP_*.

Opcode numbers and field layouts are pinned here (hardware facts), never read from /repo."""
import struct

from . import isa

CMD0 = {
    0x000: "OP_STOP", 0x001: "OP_IRQ", 0x002: "OP_CONV", 0x003: "OP_DEPTHWISE", 0x005: "OP_POOL", 0x006: "OP_ELEMENTWISE",
    0x010: "OP_DMA_START", 0x011: "OP_DMA_WAIT", 0x012: "OP_KERNEL_WAIT", 0x013: "OP_PMU_MASK",
    0x100: "IFM_PAD_TOP", 0x101: "IFM_PAD_LEFT", 0x102: "IFM_PAD_RIGHT", 0x103: "IFM_PAD_BOTTOM", 0x104: "IFM_DEPTH_M1",
    0x105: "IFM_PRECISION", 0x107: "IFM_UPSCALE", 0x109: "IFM_ZERO_POINT", 0x10A: "IFM_WIDTH0_M1", 0x10B: "IFM_HEIGHT0_M1",
    0x10C: "IFM_HEIGHT1_M1", 0x10D: "IFM_IB_END", 0x10F: "IFM_REGION",
    0x111: "OFM_WIDTH_M1", 0x112: "OFM_HEIGHT_M1", 0x113: "OFM_DEPTH_M1", 0x114: "OFM_PRECISION", 0x115: "OFM_BLK_WIDTH_M1",
    0x116: "OFM_BLK_HEIGHT_M1", 0x117: "OFM_BLK_DEPTH_M1", 0x118: "OFM_ZERO_POINT", 0x11A: "OFM_WIDTH0_M1",
    0x11B: "OFM_HEIGHT0_M1", 0x11C: "OFM_HEIGHT1_M1", 0x11F: "OFM_REGION",
    0x120: "KERNEL_WIDTH_M1", 0x121: "KERNEL_HEIGHT_M1", 0x122: "KERNEL_STRIDE", 0x123: "PARALLEL_MODE", 0x124: "ACC_FORMAT",
    0x125: "ACTIVATION", 0x126: "ACTIVATION_MIN", 0x127: "ACTIVATION_MAX", 0x128: "WEIGHT_REGION", 0x129: "SCALE_REGION",
    0x12D: "AB_START", 0x12F: "BLOCKDEP",
    0x130: "DMA0_SRC_REGION", 0x131: "DMA0_DST_REGION", 0x132: "DMA0_SIZE0", 0x133: "DMA0_SIZE1",
    0x180: "IFM2_BROADCAST", 0x181: "IFM2_SCALAR", 0x185: "IFM2_PRECISION", 0x189: "IFM2_ZERO_POINT", 0x18A: "IFM2_WIDTH0_M1",
    0x18B: "IFM2_HEIGHT0_M1", 0x18C: "IFM2_HEIGHT1_M1", 0x18D: "IFM2_IB_START", 0x18F: "IFM2_REGION",
}
CMD1 = {
    0x000: "IFM_BASE0", 0x001: "IFM_BASE1", 0x002: "IFM_BASE2", 0x003: "IFM_BASE3", 0x004: "IFM_STRIDE_X", 0x005: "IFM_STRIDE_Y",
    0x006: "IFM_STRIDE_C",
    0x010: "OFM_BASE0", 0x011: "OFM_BASE1", 0x012: "OFM_BASE2", 0x013: "OFM_BASE3", 0x014: "OFM_STRIDE_X", 0x015: "OFM_STRIDE_Y",
    0x016: "OFM_STRIDE_C",
    0x020: "WEIGHT_BASE", 0x021: "WEIGHT_LENGTH", 0x022: "SCALE_BASE", 0x023: "SCALE_LENGTH", 0x024: "OFM_SCALE",
    0x025: "OPA_SCALE", 0x026: "OPB_SCALE",
    0x030: "DMA0_SRC", 0x031: "DMA0_DST", 0x032: "DMA0_LEN", 0x033: "DMA0_SKIP0", 0x034: "DMA0_SKIP1",
    0x080: "IFM2_BASE0", 0x081: "IFM2_BASE1", 0x082: "IFM2_BASE2", 0x083: "IFM2_BASE3", 0x084: "IFM2_STRIDE_X",
    0x085: "IFM2_STRIDE_Y", 0x086: "IFM2_STRIDE_C",
    0x090: "WEIGHT1_BASE", 0x091: "WEIGHT1_LENGTH", 0x092: "SCALE1_BASE", 0x093: "SCALE1_LENGTH",
}
OPS = {"OP_CONV": "conv", "OP_DEPTHWISE": "depthwise", "OP_POOL": "pool", "OP_ELEMENTWISE": "elementwise", "OP_DMA_START": "dma"}
POOL_MODES = {0: "MAX", 1: "AVERAGE", 2: "REDUCE_SUM"}
EW_MODES = {0: "MUL", 1: "ADD", 2: "SUB", 3: "MIN", 4: "MAX", 5: "LRELU", 6: "ABS", 7: "CLZ", 8: "SHR", 9: "SHL"}
UNARY_EW = ("LRELU", "ABS", "CLZ")
SHRAM_REGION = 0x103  # internal memory, as programmed in DMA0_DST_REGION
# registers whose cmd1 payload is a 40 bit address/stride (param holds bits 32..39)
ADDR_REGS = {n for n in CMD1.values() if ("BASE" in n or "STRIDE" in n or n in ("DMA0_SRC", "DMA0_DST", "DMA0_LEN"))}


def s16(v):
    return v - 0x10000 if v & 0x8000 else v


class DecodeError(Exception):
    pass


def parse_payload(b):
    """driver payload bytes -> (config_word, id_word, words, problems)."""
    problems = []
    if len(b) % 4:
        problems.append("payload length %d not a multiple of 4" % len(b))
        b = b[: len(b) // 4 * 4]
    w = struct.unpack("<%dI" % (len(b) // 4), b)
    if not w or w[0] != isa.FOURCC_COP1:
        return None, None, [], problems + ["no COP1 tag"]
    i = 1
    config = idw = None
    while i < len(w):
        cmd = w[i] & 0xFF
        if cmd == isa.DA_CONFIG:
            config, idw = w[i + 1], w[i + 2]
            i += 3
        elif cmd == isa.DA_NOP:
            i += 1
        elif cmd == isa.DA_CMDSTREAM:
            n = ((w[i] >> 8) & 0xFF) << 16 | (w[i] >> 16)
            i += 1
            if (i * 4) % 16:
                problems.append("command words start at byte %d (not 16-byte aligned)" % (i * 4))
            if len(w) - i != n:
                problems.append("header declares %d words, %d follow" % (n, len(w) - i))
            return config, idw, list(w[i:]), problems
        else:
            problems.append("unknown driver action %#x" % w[i])
            return config, idw, [], problems
    problems.append("no command stream action")
    return config, idw, [], problems


class HwOp:
    """One NPU_OP_* with the register image in force (regs: name -> int; cmd1 scale registers -> (payload, param))."""

    __slots__ = ("index", "kind", "sub", "regs", "waits", "word_index", "written")

    def __init__(self, index, kind, sub, regs, waits, word_index, written):
        self.index, self.kind, self.sub, self.regs, self.waits, self.word_index, self.written = index, kind, sub, regs, waits, word_index, written

    def r(self, name, default=0):
        return self.regs.get(name, default)

    def __repr__(self):
        return "<HwOp %d %s %s>" % (self.index, self.kind, self.sub or "")


def decode(words):
    """Returns (ops, problems).  Register file = one bank for DMA registers and one for the rest (as the hardware)."""
    regs = {}
    ops = []
    problems = []
    waits = []
    written = set()
    i = 0
    stopped = False
    n = len(words)
    while i < n:
        w = words[i]
        code = w & 0xFFFF
        param = w >> 16
        mode = code & 0xC000
        opc = code & 0x3FF
        if stopped:
            problems.append("command word %#x after NPU_OP_STOP at word %d" % (w, i))
            break
        if code & 0x3C00:
            problems.append("reserved bits set in command %#x at word %d" % (w, i))
        if mode == 0x4000:
            name = CMD1.get(opc)
            if i + 1 >= n:
                problems.append("truncated cmd1 at word %d" % i)
                break
            payload = words[i + 1]
            if name is None:
                problems.append("unknown cmd1 opcode %#x at word %d" % (opc, i))
            elif name in ADDR_REGS:
                regs[name] = payload | (param << 32)
                written.add(name)
            else:
                regs[name] = (payload, param)
                written.add(name)
            i += 2
            continue
        if mode != 0:
            problems.append("unknown payload mode in %#x at word %d" % (w, i))
            i += 1
            continue
        name = CMD0.get(opc)
        if name is None:
            problems.append("unknown cmd0 opcode %#x at word %d" % (opc, i))
        elif name == "OP_STOP":
            stopped = True
        elif name in ("OP_KERNEL_WAIT", "OP_DMA_WAIT"):
            waits.append(("kernel" if name == "OP_KERNEL_WAIT" else "dma", param & 0xF, param >> 4))
        elif name in OPS:
            kind = OPS[name]
            sub = None
            if kind == "pool":
                sub = POOL_MODES.get(param, "?%d" % param)
            elif kind == "elementwise":
                sub = EW_MODES.get(param, "?%d" % param)
            elif kind == "dma":
                sub = param
            ops.append(HwOp(len(ops), kind, sub, dict(regs), waits, i, written))
            waits = []
            written = set()
        elif name in ("OP_IRQ", "OP_PMU_MASK"):
            pass
        else:
            regs[name] = param
            written.add(name)
        i += 1
    if not stopped:
        problems.append("stream does not end with NPU_OP_STOP")
    elif i != n:
        problems.append("%d words after NPU_OP_STOP" % (n - i))
    if waits:
        problems.append("wait commands not followed by an operation")
    return ops, problems


# ----------------------------------------------------------------------------------------------
# interpretation of the register image


class FM:
    __slots__ = ("region", "bases", "h0", "h1", "w0", "height", "width", "depth", "sy", "sx", "sc", "zp", "signed", "bits", "nhcwb16", "esize")

    def as_tuple(self):
        return tuple(getattr(self, k) for k in self.__slots__)


def _precision(p, is_ofm):
    signed = bool(p & 1)
    if is_ofm:
        bits = {0: 8, 1: 16, 2: 32}.get((p >> 1) & 3, 0)
    else:
        bits = {0: 8, 1: 16, 2: 32}.get((p >> 2) & 3, 0)
    return signed, bits, bool(p & (1 << 6))


def kernel_of(op):
    ks = op.r("KERNEL_STRIDE")
    sx = ((ks & 1) | (((ks >> 6) & 7) << 1)) + 1
    sy = (((ks >> 1) & 1) | (((ks >> 9) & 7) << 1)) + 1
    dx = ((ks >> 3) & 1) + 1
    dy = ((ks >> 4) & 1) + 1
    return dict(dkh=op.r("KERNEL_HEIGHT_M1") + 1, dkw=op.r("KERNEL_WIDTH_M1") + 1, sx=sx, sy=sy, dx=dx, dy=dy, part_kernel=bool(ks & 4))


def ofm_of(op):
    f = FM()
    f.region = op.r("OFM_REGION")
    f.bases = [op.r("OFM_BASE%d" % i) for i in range(4)]
    f.h0, f.h1, f.w0 = op.r("OFM_HEIGHT0_M1") + 1, op.r("OFM_HEIGHT1_M1") + 1, op.r("OFM_WIDTH0_M1") + 1
    f.height, f.width, f.depth = op.r("OFM_HEIGHT_M1") + 1, op.r("OFM_WIDTH_M1") + 1, op.r("OFM_DEPTH_M1") + 1
    f.sy, f.sx, f.sc = op.r("OFM_STRIDE_Y"), op.r("OFM_STRIDE_X"), op.r("OFM_STRIDE_C")
    f.zp = s16(op.r("OFM_ZERO_POINT"))
    f.signed, f.bits, f.nhcwb16 = _precision(op.r("OFM_PRECISION"), True)
    f.esize = f.bits // 8
    return f


def ifm_extent(op):
    """(height, width) of the IFM region the operation fetches, derived from OFM extent, kernel, stride, padding, upscale."""
    o_h, o_w = op.r("OFM_HEIGHT_M1") + 1, op.r("OFM_WIDTH_M1") + 1
    if op.kind == "elementwise":
        return o_h, o_w
    k = kernel_of(op)
    up = op.r("IFM_UPSCALE")
    nh = (o_h - 1) * k["sy"] + k["dkh"] - op.r("IFM_PAD_TOP") - op.r("IFM_PAD_BOTTOM")
    nw = (o_w - 1) * k["sx"] + k["dkw"] - op.r("IFM_PAD_LEFT") - op.r("IFM_PAD_RIGHT")
    if up:
        nh, nw = -(-nh // 2), -(-nw // 2)
    return max(nh, 1), max(nw, 1)


def ifm_of(op, which=""):
    p = "IFM2" if which == "2" else "IFM"
    f = FM()
    f.region = op.r(p + "_REGION")
    f.bases = [op.r(p + "_BASE%d" % i) for i in range(4)]
    f.h0, f.h1, f.w0 = op.r(p + "_HEIGHT0_M1") + 1, op.r(p + "_HEIGHT1_M1") + 1, op.r(p + "_WIDTH0_M1") + 1
    f.sy, f.sx, f.sc = op.r(p + "_STRIDE_Y"), op.r(p + "_STRIDE_X"), op.r(p + "_STRIDE_C")
    f.zp = s16(op.r(p + "_ZERO_POINT"))
    f.signed, f.bits, f.nhcwb16 = _precision(op.r(p + "_PRECISION"), False)
    f.esize = f.bits // 8
    h, w = ifm_extent(op)
    ofm_d = op.r("OFM_DEPTH_M1") + 1
    if op.kind == "conv" or (op.kind == "pool" and op.sub == "REDUCE_SUM"):
        d = op.r("IFM_DEPTH_M1") + 1
    else:
        d = ofm_d
    if which == "2":
        bc = op.r("IFM2_BROADCAST")
        if bc & 1:
            h = 1
        if bc & 2:
            w = 1
        if bc & 4:
            d = 1
    f.height, f.width, f.depth = h, w, d
    return f


def has_ifm2(op):
    return op.kind == "elementwise" and op.sub not in UNARY_EW and not (op.r("IFM2_BROADCAST") & 0x80)


def lut_index(op):
    a = op.r("ACTIVATION") & 0x1F
    return a - 16 if a >= 16 else None


def weight_ranges(op, ncores):
    if op.kind not in ("conv", "depthwise"):
        return []
    out = []
    names = [("WEIGHT_BASE", "WEIGHT_LENGTH"), ("WEIGHT1_BASE", "WEIGHT1_LENGTH")][:ncores]
    for b, l in names:
        ln = op.r(l, (0, 0))[0]
        if ln:
            out.append((op.r("WEIGHT_REGION"), op.r(b), ln))
    return out


def scale_ranges(op, ncores):
    if op.kind not in ("conv", "depthwise"):
        return []
    out = []
    names = [("SCALE_BASE", "SCALE_LENGTH"), ("SCALE1_BASE", "SCALE1_LENGTH")][:ncores]
    for b, l in names:
        ln = op.r(l, (0, 0))[0]
        if ln and b in op.regs:
            out.append((op.r("SCALE_REGION"), op.r(b), ln))
    return out


def dma_of(op):
    return dict(src_region=op.r("DMA0_SRC_REGION"), src=op.r("DMA0_SRC"), dst_region=op.r("DMA0_DST_REGION"), dst=op.r("DMA0_DST"), length=op.r("DMA0_LEN"))
