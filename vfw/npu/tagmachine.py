"""Tag machine (DESIGN.md C03): value-free execution of emitted command streams over shadow memory that records, per byte,
who wrote it.  A byte's identity is (tensor id, coordinate): coordinate = logical linear element index under the
operation's view for brick-format / rolling-buffer tensors, byte offset inside the tensor for linear (NHWC) tensors;
constants keep (FLASH, flash offset).  Reads are compared with the identity the high-level command says they must see."""
import numpy as np

from . import decode as D
from . import footprint as F
from . import isa

BOTTOM, FLASH = 0, 1


class Shadow:
    def __init__(self, sizes):
        self.tid = {r: np.zeros(n + 64, dtype=np.int32) for r, n in sizes.items()}
        self.coord = {r: np.zeros(n + 64, dtype=np.int64) for r, n in sizes.items()}

    def has(self, r):
        return r in self.tid


class Tids:
    def __init__(self):
        self.ids = {}
        self.parent = {}
        self.names = {}

    def get(self, desc):
        eq = desc["eq"]
        if eq not in self.ids:
            self.ids[eq] = len(self.ids) + 2
            self.parent[self.ids[eq]] = self.ids[eq]
        self.names[self.ids[eq]] = desc["name"]
        return self.find(self.ids[eq])

    def find(self, i):
        while self.parent[i] != i:
            i = self.parent[i]
        return i

    def alias(self, a, b):
        a, b = self.find(a), self.find(b)
        if a != b:
            self.parent[a] = b

    def name(self, i):
        if i == BOTTOM:
            return "<undefined>"
        if i == FLASH:
            return "<constants>"
        return self.names.get(i, "#%d" % i)


def elem_addresses(f, h, w, c0, c1):
    """int64 array [h, w, c1-c0] of the byte address of every element of feature map f (register image)"""
    ys = np.arange(h, dtype=np.int64)[:, None, None]
    xs = np.arange(w, dtype=np.int64)[None, :, None]
    cs = np.arange(c0, c1, dtype=np.int64)[None, None, :]
    right = xs >= f.w0
    below0 = ys >= f.h0
    below1 = ys >= f.h1
    base = np.where(right, np.where(below1, f.bases[3], f.bases[1]), np.where(below0, f.bases[2], f.bases[0]))
    yy = np.where(right, np.where(below1, ys - f.h1, ys), np.where(below0, ys - f.h0, ys))
    xx = np.where(right, xs - f.w0, xs)
    if f.nhcwb16:
        return base + yy * f.sy + xx * (16 * f.esize) + (cs // 16) * f.sc + (cs % 16) * f.esize
    return base + yy * f.sy + xx * f.sx + cs * f.esize


def byte_addresses(ea, esize):
    if esize == 1:
        return ea.reshape(-1)
    return (ea[..., None] + np.arange(esize, dtype=np.int64)).reshape(-1)


def logical_coords(box, view, h, w, c0, c1, esize, bc=(False, False, False)):
    """linear element index under the op's view shape for local elements [0,h) x [0,w) x [c0,c1) of a box"""
    _, Hv, Wv, Cv = view
    y0, x0, cstart = box["start"][1], box["start"][2], box["start"][3]
    ys = (y0 + np.arange(h, dtype=np.int64))[:, None, None]
    xs = (x0 + np.arange(w, dtype=np.int64))[None, :, None]
    cs = (cstart + np.arange(c0, c1, dtype=np.int64))[None, None, :]
    lin = (ys * Wv + xs) * Cv + cs
    lin = np.broadcast_to(lin, (h, w, c1 - c0))
    if esize == 1:
        return lin.reshape(-1)
    return np.repeat(lin.reshape(-1), esize)


def tile_padded_coords(box, view, h, w, c0, c1, esize, pad):
    """as logical_coords for an IFM that the hardware tiles pad by one row/column of edge values on the sides named in
    pad = (top, left, bottom, right): local element (y, x) is tensor element (clamp(y - top), clamp(x - left))"""
    _, Hv, Wv, Cv = view
    y0, x0, cstart = box["start"][1], box["start"][2], box["start"][3]
    ys = np.clip(y0 + np.arange(h, dtype=np.int64) - pad[0], 0, Hv - 1)[:, None, None]
    xs = np.clip(x0 + np.arange(w, dtype=np.int64) - pad[1], 0, Wv - 1)[None, :, None]
    cs = (cstart + np.arange(c0, c1, dtype=np.int64))[None, None, :]
    lin = np.broadcast_to((ys * Wv + xs) * Cv + cs, (h, w, c1 - c0))
    if esize == 1:
        return lin.reshape(-1)
    return np.repeat(lin.reshape(-1), esize)


def uses_logical(desc):
    return desc["fmt"] == "NHCWB16" or desc["sub"] != "Standard"


class TagMachine:
    def __init__(self, sizes, flash, acc):
        """sizes: {1: scratch bytes, 2: fast bytes}; flash: constant bytes of region 0"""
        s = dict(sizes)
        s["shram"] = isa.ACCELERATORS[acc]["banks"] * isa.SHRAM_BANK_BYTES
        self.sh = Shadow(s)
        self.flash = np.frombuffer(flash, dtype=np.uint8) if flash else np.zeros(0, dtype=np.uint8)
        self.acc = acc
        self.tids = Tids()
        self.viol = []
        self.stats = dict(reads_checked=0, bytes_checked=0, rolling_reads=0, buffered_weight_reads=0, lut_reads=0, ops=0, dmas=0, wrap_reads=0)

    # ---- external definitions (network inputs, CPU operator outputs) ------------------------------------
    def define_external(self, region, offset, size, desc):
        if not self.sh.has(region) or offset is None or offset < 0:
            return
        t = self.tids.get(desc)
        n = min(size, len(self.sh.tid[region]) - offset)
        if n <= 0:
            return
        self.sh.tid[region][offset:offset + n] = t
        self.sh.coord[region][offset:offset + n] = np.arange(n, dtype=np.int64)

    # ---- helpers ----------------------------------------------------------------------------------------
    def _report(self, kind, opi, what):
        if len(self.viol) < 30:
            self.viol.append((kind, opi, what))

    def _check(self, region, addrs, exp_tid, exp_coord, opi, role, desc):
        """compare shadow at addrs with the expected identity"""
        if region == 0:
            return  # the constants region is immutable and always defined
        if not self.sh.has(region):
            return
        n = len(self.sh.tid[region])
        ok = (addrs >= 0) & (addrs < n)
        if not ok.all():
            addrs, exp_coord = addrs[ok], (exp_coord[ok] if exp_coord is not None else None)  # out-of-region is C02's business
        if len(addrs) == 0:
            return
        self.stats["reads_checked"] += 1
        self.stats["bytes_checked"] += int(len(addrs))
        got_t = self.sh.tid[region][addrs]
        # resolve aliases (NOP'd copies)
        bad = got_t != exp_tid
        if bad.any():
            uniq = np.unique(got_t[bad])
            resolved = {int(u): (self.tids.find(int(u)) if u >= 2 else int(u)) for u in uniq}
            if all(v == exp_tid for v in resolved.values()):
                bad = np.zeros_like(bad)
            else:
                i = int(np.nonzero(bad)[0][0])
                g = int(got_t[i])
                kind = "uninitialised" if g == BOTTOM else "foreign-tensor"
                self._report("%s|%s" % (kind, role), opi, "%s of %s reads byte %d of region %s which holds %s (expected %s)" % (
                    role, desc["name"], int(addrs[i]), region, self.tids.name(g), self.tids.name(exp_tid)))
                return
        if exp_coord is not None:
            got_c = self.sh.coord[region][addrs]
            badc = got_c != exp_coord
            if badc.any():
                i = int(np.nonzero(badc)[0][0])
                self._report("stale-coordinate|%s" % role, opi, "%s of %s reads byte %d of region %s which holds element %d of that tensor, expected element %d (overwritten or not yet produced)" % (
                    role, desc["name"], int(addrs[i]), region, int(got_c[i]), int(exp_coord[i])))

    def _write(self, region, addrs, t, coord):
        if region == 0 or not self.sh.has(region):
            return
        n = len(self.sh.tid[region])
        ok = (addrs >= 0) & (addrs < n)
        if not ok.all():
            addrs, coord = addrs[ok], coord[ok]
        self.sh.tid[region][addrs] = t
        self.sh.coord[region][addrs] = coord

    def _region(self, r):
        return "shram" if r == D.SHRAM_REGION else r

    def _const_read(self, region, base, length, exp_off, opi, role, name):
        """bytes [base, base+length) of region must hold the constant bytes flash[exp_off : exp_off+length]"""
        if region == 0:
            if base != exp_off:
                # reading a different flash range is fine iff the bytes are the same
                a, b = self.flash[base:base + length], self.flash[exp_off:exp_off + length]
                if len(a) != len(b) or not np.array_equal(a, b):
                    self._report("wrong-constant|%s" % role, opi, "%s of %s read from constants [%d,+%d), expected the bytes at [%d,+%d)" % (role, name, base, length, exp_off, length))
            return
        region = self._region(region)
        if not self.sh.has(region):
            return
        n = len(self.sh.tid[region])
        if base < 0 or base + length > n:
            return
        self.stats["reads_checked"] += 1
        self.stats["bytes_checked"] += length
        t = self.sh.tid[region][base:base + length]
        if (t != FLASH).any():
            i = int(np.nonzero(t != FLASH)[0][0])
            self._report("%s|%s" % ("uninitialised" if t[i] == BOTTOM else "foreign-tensor", role), opi,
                         "%s of %s reads byte %d of region %s which holds %s, expected constant data" % (role, name, base + i, region, self.tids.name(int(t[i]))))
            return
        src = self.sh.coord[region][base:base + length]
        ok = (src >= 0) & (src < len(self.flash))
        got = np.zeros(length, dtype=np.uint8)
        got[ok] = self.flash[src[ok]]
        exp = self.flash[exp_off:exp_off + length]
        if len(exp) != length or not np.array_equal(got, exp):
            i = int(np.nonzero(got[:len(exp)] != exp)[0][0]) if len(exp) == length else 0
            self._report("wrong-constant|%s" % role, opi, "%s of %s: buffer byte %d holds constant byte from flash offset %d, expected flash offset %d (stale or overwritten buffer)" % (
                role, name, base + i, int(src[i]), exp_off + i))

    # ---- execution --------------------------------------------------------------------------------------
    def run_stream(self, ops, cmds):
        """ops: decoded HwOps; cmds: side-band command descriptions (NOPs included)."""
        real = [c for c in cmds if c["kind"] != "nop"]
        if len(real) != len(ops):
            return False
        ci = 0
        for c in cmds:
            if c["kind"] == "nop":
                self.tids.alias(self.tids.get(c["dst"]), self.tids.get(c["src"]))
                continue
            op = ops[ci]
            if (c["kind"] == "dma") != (op.kind == "dma"):
                return False
            if op.kind == "dma":
                self._dma(op, c, ci)
            else:
                self._kernel(op, c, ci)
            ci += 1
        return True

    def _dma(self, op, c, opi):
        self.stats["dmas"] += 1
        d = D.dma_of(op)
        sr, dr = self._region(d["src_region"]), self._region(d["dst_region"])
        n = d["length"]
        if c.get("weights") or c.get("lut"):
            # constants: destination inherits (FLASH, source offset); a source in a buffer must itself hold constants
            if sr == 0:
                coord = np.arange(d["src"], d["src"] + n, dtype=np.int64)
                t = np.full(n, FLASH, dtype=np.int32)
            else:
                if not self.sh.has(sr):
                    return
                t = self.sh.tid[sr][d["src"]:d["src"] + n].copy()
                coord = self.sh.coord[sr][d["src"]:d["src"] + n].copy()
            if self.sh.has(dr) and d["dst"] + n <= len(self.sh.tid[dr]):
                self.sh.tid[dr][d["dst"]:d["dst"] + n] = t
                self.sh.coord[dr][d["dst"]:d["dst"] + n] = coord
            return
        # feature-map copy: source must hold the source tensor; destination becomes the destination tensor
        st, dt = self.tids.get(c["src"]), self.tids.get(c["dst"])
        if sr == 0:
            coord = np.arange(n, dtype=np.int64) + (d["dst"] - (c["dst"]["address"] or d["dst"]))
        elif self.sh.has(sr) and d["src"] + n <= len(self.sh.tid[sr]):
            got = self.sh.tid[sr][d["src"]:d["src"] + n]
            # the transfer length is rounded up to 16 bytes: only the tensor's own bytes are judged
            nbytes = c["src"]["esize"]
            for dim in c["src"]["shape"]:
                nbytes *= dim
            m = min(n, max(0, (c["src"]["address"] or 0) + min(nbytes, c["src"]["storage_size"]) - d["src"]))
            bad = np.array([self.tids.find(int(x)) if x >= 2 else int(x) for x in np.unique(got[:m])]) if m > 0 else np.array([])
            if m > 0 and not all(b == st for b in bad):
                g = next(int(b) for b in bad if b != st)
                self._report("%s|dma-source" % ("uninitialised" if g == BOTTOM else "foreign-tensor"), opi, "DMA copies %s but the source bytes hold %s" % (c["src"]["name"], self.tids.name(g)))
            coord = self.sh.coord[sr][d["src"]:d["src"] + n].copy()
        else:
            coord = np.arange(n, dtype=np.int64)
        if self.sh.has(dr) and d["dst"] + n <= len(self.sh.tid[dr]):
            self.sh.tid[dr][d["dst"]:d["dst"] + n] = dt
            self.sh.coord[dr][d["dst"]:d["dst"] + n] = coord

    def _fm_identity(self, desc, box, view, f, h, w, c0, c1, addrs_bytes):
        if uses_logical(desc):
            return logical_coords(box, view, h, w, c0, c1, f.esize)
        base = desc["address"] or 0
        return addrs_bytes - base

    def _kernel(self, op, c, opi):
        self.stats["ops"] += 1
        f = D.ifm_of(op)
        o = D.ofm_of(op)
        # ---- reads
        # a binary elementwise operation whose FIRST operand is the broadcast one is emitted with its operands exchanged (the hardware
        # broadcasts IFM2 only) and the operand-order bit set: the registers' IFM then holds the command's second operand
        swapped = op.kind == "elementwise" and D.has_ifm2(op) and bool(op.r("IFM2_BROADCAST") & 0x40)
        for which, key in ((("", "ifm2"), ("2", "ifm")) if swapped else (("", "ifm"), ("2", "ifm2"))):
            if which == "2" and not D.has_ifm2(op):
                continue
            desc = c.get(key)
            if desc is None:
                continue
            fm = f if which == "" else D.ifm_of(op, "2")
            region = self._region(fm.region)
            box, view = c[key + "_box"], c[key + "_view"]
            if view is None:
                continue
            ea = elem_addresses(fm, fm.height, fm.width, 0, fm.depth)
            ab = byte_addresses(ea, fm.esize)
            if desc["sub"] != "Standard":
                self.stats["rolling_reads"] += 1
            if fm.height > fm.h0:
                self.stats["wrap_reads"] += 1
            if desc["purpose"] != "FeatureMap" or desc["mem_type"].startswith("Permanent"):
                continue  # constant operand read straight from the constants region
            t = self.tids.get(desc)
            if which == "" and not swapped and c.get("padding_type") == "Padding.TILE" and c.get("explicit_padding") and uses_logical(desc):
                coord = tile_padded_coords(box, view, fm.height, fm.width, 0, fm.depth, fm.esize, tuple(c["explicit_padding"]))
                self.stats["tile_padded_reads"] = self.stats.get("tile_padded_reads", 0) + 1
            else:
                coord = self._fm_identity(desc, box, view, fm, fm.height, fm.width, 0, fm.depth, ab)
            self._check(region, ab, t, coord, opi, "IFM" + which, desc)
        ncores = isa.ACCELERATORS[self.acc]["cores"]
        wr = D.weight_ranges(op, ncores)
        sr = D.scale_ranges(op, ncores)
        wd = c.get("weights")
        if wd:
            if wd["buffered"]:
                self.stats["buffered_weight_reads"] += 1
            for (region, base, ln), (eoff, elen) in zip(wr, wd["flash"]):
                self._const_read(region, base, min(ln, elen), eoff, opi, "weights", c["name"])
            for (region, base, ln), (eoff, elen) in zip(sr, wd["scales"]):
                self._const_read(region, base, min(ln, elen), eoff, opi, "scales", c["name"])
        li = D.lut_index(op)
        if li is not None and c.get("lut") and c["lut"]["flash"] is not None:
            self.stats["lut_reads"] += 1
            lo, hi = F.lut_slot_interval(self.acc, li)
            self._const_read(D.SHRAM_REGION, lo, c["lut"]["size"], c["lut"]["flash"], opi, "LUT", c["name"])
        if li is None and self.sh.has("shram"):
            # parts without reserved table banks: the IFM buffers / accumulators of an operator that uses no table may extend
            # over the table area and destroy what is stored there
            banks = isa.ACCELERATORS[self.acc]["banks"]
            if banks <= 16:
                from ..ref import shram as _shram

                try:
                    end = _shram.usage_end_bank(self.acc, op.kind, op.sub, op.r, f.bits, op.r("IFM_DEPTH_M1") + 1, (o.height, o.width))
                except Exception:
                    end = banks
                lo = (banks - 2) * isa.SHRAM_BANK_BYTES
                hi = min(end, banks) * isa.SHRAM_BANK_BYTES
                if hi > lo:
                    self.sh.tid["shram"][lo:hi] = BOTTOM
                    self.stats["lut_area_clobbered"] = self.stats.get("lut_area_clobbered", 0) + 1
        # ---- writes
        desc = c["ofm"]
        region = self._region(o.region)
        ea = elem_addresses(o, o.height, o.width, 0, o.depth)
        ab = byte_addresses(ea, o.esize)
        t = self.tids.get(desc)
        coord = self._fm_identity(desc, c["ofm_box"], c["ofm_view"], o, o.height, o.width, 0, o.depth, ab)
        self._write(region, ab, t, coord)

    # ---- post-condition: the custom operator's outputs are where the file says ---------------------------
    def check_output(self, region, offset, size, desc, opi="end"):
        if not self.sh.has(region) or offset is None:
            return
        t = self.tids.get(desc)
        got = self.sh.tid[region][offset:offset + size]
        if len(got) == 0:
            return
        res = [self.tids.find(int(x)) if x >= 2 else int(x) for x in np.unique(got)]
        # An Ethos-U operator may legitimately produce only part of a declared output (e.g. one slice of a concatenation
        # whose other slice is written by a later operator), so only a tensor that received NONE of its bytes, or bytes of a
        # foreign tensor, is reported
        foreign = [r for r in res if r not in (t, BOTTOM)]
        if t not in res or foreign:
            g = foreign[0] if foreign else BOTTOM
            self._report("output-not-produced", opi, "output tensor %s at arena offset %d holds %s after the Ethos-U operator ran" % (desc["name"], offset, self.tids.name(g)))
