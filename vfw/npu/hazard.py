"""Asynchronous NPU execution model (DESIGN.md C04) explored exhaustively over a decoded command stream.

Activities: DMA transfers (operation granular, in-order queue of depth maxDMA) and kernel block jobs (kernel queue of
depth 2; jobs start in order, retire in order; a job reads at start and writes at retirement).  Job f of kernel op B may
start while u jobs of the previous kernel op A are unretired iff u <= BLOCKDEP(B) - f.  The explorer enumerates every
reachable state (BFS) and evaluates the no-conflict invariant in each."""
import collections

from . import decode as D
from . import footprint as F
from . import isa

CAP = isa.MAX_BLOCKDEP  # only the last CAP jobs of A and the first CAP jobs of B can ever overlap


def _ru(a, b):
    return -(-a // b)


class KernelJobs:
    """Block-job decomposition of one kernel HwOp (A2): OFM blocks depth-fastest, then width, then height;
    a convolution block is ceil(C_ifm / ifm_block_depth) consecutive jobs, the last of which writes the block."""

    def __init__(self, op, acc):
        self.op = op
        self.acc = acc
        a = isa.ACCELERATORS[acc]
        self.ofm = D.ofm_of(op)
        self.ifm = D.ifm_of(op)
        self.ifm2 = D.ifm_of(op, "2") if D.has_ifm2(op) else None
        self.bh, self.bw, self.bd = op.r("OFM_BLK_HEIGHT_M1") + 1, op.r("OFM_BLK_WIDTH_M1") + 1, op.r("OFM_BLK_DEPTH_M1") + 1
        self.nh, self.nw, self.nd = _ru(self.ofm.height, self.bh), _ru(self.ofm.width, self.bw), _ru(self.ofm.depth, self.bd)
        if op.kind == "conv" or (op.kind == "pool" and op.sub == "REDUCE_SUM"):
            # the IFM is traversed in depth slices no deeper than the IFM buffer allows (256 bits per element position)
            ublk = a["ifm_ublock"][2]
            depth = _ru(self.ifm.depth, ublk) * ublk
            self.ifm_bd = min(8 * 32 // self.ifm.bits, depth)
            self.dj = _ru(self.ifm.depth, self.ifm_bd)
        else:
            self.ifm_bd = None
            self.dj = 1
        self.n = self.nh * self.nw * self.nd * self.dj
        self.k = D.kernel_of(op) if op.kind != "elementwise" else None
        ncores = a["cores"]
        self.const_reads = {}
        for region, base, ln in D.weight_ranges(op, ncores) + D.scale_ranges(op, ncores):
            self.const_reads.setdefault(region, []).append((base, base + ln))
        li = D.lut_index(op)
        self.uses_lut = li is not None
        if li is not None:
            lo, hi = F.lut_slot_interval(acc, li)
            if self.ifm.bits == 16:
                hi = lo + 2048
            self.const_reads.setdefault("shram", []).append((lo, hi))
        self._cache = {}

    def block_of(self, j):
        blk = j // self.dj
        dslice = j % self.dj
        z = blk % self.nd
        x = (blk // self.nd) % self.nw
        y = blk // (self.nd * self.nw)
        return y, x, z, dslice

    def sets(self, j):
        """(reads, writes) of job j as dict region -> interval set."""
        if j in self._cache:
            return self._cache[j]
        y, x, z, ds = self.block_of(j)
        o = self.ofm
        y0, y1 = y * self.bh, min((y + 1) * self.bh, o.height)
        x0, x1 = x * self.bw, min((x + 1) * self.bw, o.width)
        z0, z1 = z * self.bd, min((z + 1) * self.bd, o.depth)
        reads = {k: list(v) for k, v in self.const_reads.items()}
        writes = {}
        f = self.ifm
        if self.op.kind == "elementwise":
            iy0, iy1, ix0, ix1 = y0, y1, x0, x1
        else:
            k = self.k
            up = 2 if self.op.r("IFM_UPSCALE") else 1
            # kernels larger than the sub-kernel limit are applied in several passes over separately fetched IFM blocks; the fetch
            # that the block dependency has to order is taken to cover at most 32 rows x 64 columns of kernel extent (the bound
            # the generator itself uses - deliberately weak, see DESIGN.md C04): later passes start after more than MAX_BLOCKDEP jobs
            dkh, dkw = min(k["dkh"], 32), min(k["dkw"], 64)
            fy = y0 * k["sy"] - self.op.r("IFM_PAD_TOP")
            ly = (y1 - 1) * k["sy"] - self.op.r("IFM_PAD_TOP") + dkh - 1
            fx = x0 * k["sx"] - self.op.r("IFM_PAD_LEFT")
            lx = (x1 - 1) * k["sx"] - self.op.r("IFM_PAD_LEFT") + dkw - 1
            iy0, iy1 = max(fy, 0) // up, min(ly // up, f.height - 1) + 1
            ix0, ix1 = max(fx, 0) // up, min(lx // up, f.width - 1) + 1
        if self.ifm_bd is not None:
            c0, c1 = ds * self.ifm_bd, min((ds + 1) * self.ifm_bd, f.depth)
        else:
            c0, c1 = z0, z1
        iv = F.fm_box(f, iy0, iy1, ix0, ix1, c0, c1)
        if iv:
            reads.setdefault(f.region, []).extend(iv)
        if self.ifm2 is not None:
            f2 = self.ifm2
            by0, by1 = (0, 1) if f2.height == 1 else (y0, y1)
            bx0, bx1 = (0, 1) if f2.width == 1 else (x0, x1)
            bc0, bc1 = (0, 1) if f2.depth == 1 else (z0, z1)
            iv2 = F.fm_box(f2, by0, by1, bx0, bx1, bc0, bc1)
            if iv2:
                reads.setdefault(f2.region, []).extend(iv2)
        if ds == self.dj - 1:
            writes[o.region] = F.fm_box(o, y0, y1, x0, x1, z0, z1)
        res = ({k: F.merge(v) for k, v in reads.items()}, writes)
        self._cache[j] = res
        return res


def shram_written(op, acc, uses_lut):
    """Whole-operation SHRAM resource of a kernel op: every bank it may use (the LUT area only when it has no LUT and the
    part has no reserved banks)."""
    banks = isa.ACCELERATORS[acc]["banks"]
    reserved = 2 if banks > 16 else 0
    avail = banks - reserved
    if uses_lut and reserved == 0:
        avail -= 2
    return [(0, avail * isa.SHRAM_BANK_BYTES)]


def conflict(r1, w1, r2, w2):
    """First activity (r1,w1) issued before the second.  Returns (kind, region, interval) or None."""
    for region, iv in w1.items():
        if region in r2:
            x = F.intersects(iv, r2[region])
            if x:
                return ("RAW", region, x)
        if region in w2:
            x = F.intersects(iv, w2[region])
            if x:
                return ("WAW", region, x)
    for region, iv in r1.items():
        if region in w2:
            x = F.intersects(iv, w2[region])
            if x:
                return ("WAR", region, x)
    return None


def explore(ops, acc, max_states=2_000_000):
    """BFS over the asynchronous execution of a decoded stream.  Returns dict(states, transitions, hazards=[...], capped)."""
    a = isa.ACCELERATORS[acc]
    max_dma, max_kern = a["max_dma"], isa.MAX_OUTSTANDING_KERNELS
    # flatten into issue events
    events = []
    for op in ops:
        for kind, n, _ch in op.waits:
            events.append(("wait", kind, n))
        events.append(("op", op.index))
    kj = {}
    opacc = {}
    for op in ops:
        r, w = F.op_accesses(op, acc)
        if op.kind != "dma":
            k = KernelJobs(op, acc)
            kj[op.index] = k
            w = dict(w)
            w["shram"] = F.merge(w.get("shram", []) + shram_written(op, acc, k.uses_lut))
        opacc[op.index] = (r, w)
    byidx = {op.index: op for op in ops}
    # previous kernel op of each kernel op (BLOCKDEP relates consecutive kernel ops)
    prevk = {}
    last = None
    for op in ops:
        if op.kind != "dma":
            prevk[op.index] = last
            last = op.index

    def njobs(i):
        return min(kj[i].n, 2 * CAP)

    def real_job(i, jj):
        n, m = kj[i].n, njobs(i)
        if n == m or jj < CAP:
            return jj
        return n - (m - jj)

    hazards = {}
    checked_pairs = set()

    def check_dma_kernel(d, k):
        key = (d, k)
        if key in checked_pairs:
            return
        checked_pairs.add(key)
        first, second = (d, k) if d < k else (k, d)
        c = conflict(opacc[first][0], opacc[first][1], opacc[second][0], opacc[second][1])
        if c:
            hazards[("dma-kernel", first, second)] = dict(kind=c[0], region=c[1], interval=c[2], first=first, second=second,
                                                         what="%s between op %d (%s) and op %d (%s) in flight together" % (c[0], first, byidx[first].kind, second, byidx[second].kind))

    def check_job_start(A, jA_list, B, jB):
        for ja in jA_list:
            key = ("jj", A, ja, B, jB)
            if key in checked_pairs:
                continue
            checked_pairs.add(key)
            ra, wa = kj[A].sets(real_job(A, ja))
            rb, wb = kj[B].sets(real_job(B, jB))
            # job model: reads at start, writes at retirement; B(jB) starts while A(ja) has not retired
            for region, iv in wa.items():
                if region in rb:
                    x = F.intersects(iv, rb[region])
                    if x:
                        hazards[("job-job", A, B)] = dict(kind="RAW", region=region, interval=x, first=A, second=B,
                                                          what="RAW: job %d of kernel op %d starts reading [%d,%d) while job %d (of %d) of kernel op %d has not written it (BLOCKDEP=%d)" % (
                                                              real_job(B, jB), B, x[0], x[1], real_job(A, ja), kj[A].n, A, byidx[B].r("BLOCKDEP")))
                        return

    # state: (pc, dmaq tuple, kq tuple of (idx, started, retired))
    init = (0, (), ())
    seen = {init}
    frontier = collections.deque([init])
    transitions = 0
    capped = False
    deadlocks = 0
    while frontier:
        st = frontier.popleft()
        pc, dmaq, kq = st
        succ = []
        # invariant: DMA vs outstanding kernel ops
        for d in dmaq:
            for (ki, s, r) in kq:
                check_dma_kernel(d, ki)
        # 1. issue
        if pc < len(events):
            ev = events[pc]
            if ev[0] == "wait":
                cnt = len(kq) if ev[1] == "kernel" else len(dmaq)
                if cnt <= ev[2]:
                    succ.append((pc + 1, dmaq, kq))
            else:
                i = ev[1]
                if byidx[i].kind == "dma":
                    if len(dmaq) < max_dma:
                        succ.append((pc + 1, dmaq + (i,), kq))
                else:
                    if len(kq) < max_kern:
                        succ.append((pc + 1, dmaq, kq + ((i, 0, 0),)))
        # 2. complete oldest DMA
        if dmaq:
            succ.append((pc, dmaq[1:], kq))
        # 3. retire oldest started job
        if kq:
            i, s, r = kq[0]
            if s > r:
                if r + 1 == njobs(i):
                    succ.append((pc, dmaq, kq[1:]))
                else:
                    succ.append((pc, dmaq, ((i, s, r + 1),) + kq[1:]))
        # 4. start next job (in order across ops)
        for pos, (i, s, r) in enumerate(kq):
            if s < njobs(i):
                # all older ops must have started all their jobs
                if all(kq[p][1] == njobs(kq[p][0]) for p in range(pos)):
                    ok = True
                    unret = []
                    if pos > 0:
                        A, sA, rA = kq[pos - 1]
                        u = sA - rA
                        bd = byidx[i].r("BLOCKDEP")
                        # jobs of B beyond the first CAP need A fully retired; capped index s maps to a real index >= CAP there
                        f = s if s < CAP else CAP
                        if u > bd - f:
                            ok = False
                        else:
                            unret = list(range(rA, sA))
                        if pos > 1:
                            ok = False  # nothing of the op before A may be in flight with B
                    if ok:
                        if unret:
                            check_job_start(kq[pos - 1][0], unret, i, s)
                        succ.append((pc, dmaq, kq[:pos] + ((i, s + 1, r),) + kq[pos + 1:]))
                break
        if not succ and (pc < len(events) or dmaq or kq):
            deadlocks += 1
        for n in succ:
            transitions += 1
            if n not in seen:
                if len(seen) >= max_states:
                    capped = True
                    continue
                seen.add(n)
                frontier.append(n)
    return dict(states=len(seen), transitions=transitions, hazards=list(hazards.values()), capped=capped, deadlocks=deadlocks,
                pairs_checked=len(checked_pairs))
