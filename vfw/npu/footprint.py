"""Exact byte footprints of feature-map boxes, weights, scales, LUT slots and DMA transfers (DESIGN.md A2).

Interval sets are sorted lists of disjoint half-open (start, end) pairs."""
from . import decode as D


def merge(iv):
    iv = sorted(iv)
    out = []
    for a, b in iv:
        if b <= a:
            continue
        if out and a <= out[-1][1]:
            if b > out[-1][1]:
                out[-1] = (out[-1][0], b)
        else:
            out.append((a, b))
    return out


def intersects(x, y):
    i = j = 0
    while i < len(x) and j < len(y):
        a, b = x[i]
        c, d = y[j]
        if a < d and c < b:
            return (max(a, c), min(b, d))
        if b <= d:
            i += 1
        else:
            j += 1
    return None


def span(iv):
    return (iv[0][0], iv[-1][1]) if iv else None


def fm_addr(f, y, x, c):
    if x < f.w0:
        if y < f.h0:
            t, yy, xx = 0, y, x
        else:
            t, yy, xx = 2, y - f.h0, x
    else:
        if y < f.h1:
            t, yy, xx = 1, y, x - f.w0
        else:
            t, yy, xx = 3, y - f.h1, x - f.w0
    if f.nhcwb16:
        return f.bases[t] + yy * f.sy + xx * 16 * f.esize + (c // 16) * f.sc + (c % 16) * f.esize
    return f.bases[t] + yy * f.sy + xx * f.sx + c * f.esize


def fm_box(f, y0, y1, x0, x1, c0, c1):
    """Interval set of the elements [y0,y1) x [x0,x1) x [c0,c1) of feature map f (exact element bytes)."""
    runs = []
    if y1 <= y0 or x1 <= x0 or c1 <= c0:
        return []
    e = f.esize
    if f.nhcwb16:
        for y in range(y0, y1):
            for b in range(c0 // 16, (c1 - 1) // 16 + 1):
                ca, cb = max(c0, b * 16), min(c1, b * 16 + 16)
                full = (ca % 16 == 0 and cb - ca == 16)
                # consecutive x inside one tile are contiguous when the whole brick is covered
                for (xa, xb) in _tile_x_runs(f, y, x0, x1):
                    if full:
                        a = fm_addr(f, y, xa, ca)
                        runs.append((a, a + (xb - xa) * 16 * e))
                    else:
                        for x in range(xa, xb):
                            a = fm_addr(f, y, x, ca)
                            runs.append((a, a + (cb - ca) * e))
    else:
        contiguous_x = (f.sx == (c1 - c0) * e)
        for y in range(y0, y1):
            for (xa, xb) in _tile_x_runs(f, y, x0, x1):
                if contiguous_x:
                    a = fm_addr(f, y, xa, c0)
                    runs.append((a, a + (xb - xa) * f.sx))
                else:
                    for x in range(xa, xb):
                        a = fm_addr(f, y, x, c0)
                        runs.append((a, a + (c1 - c0) * e))
    return merge(runs)


def _tile_x_runs(f, y, x0, x1):
    if x1 <= f.w0 or x0 >= f.w0:
        return [(x0, x1)]
    return [(x0, f.w0), (f.w0, x1)]


def fm_full(f):
    return fm_box(f, 0, f.height, 0, f.width, 0, f.depth)


def lut_slot_interval(acc, index):
    """SHRAM byte interval of 256-byte LUT slot `index` (LUT area = last 2 banks of the full bank count)."""
    from . import isa

    banks = isa.ACCELERATORS[acc]["banks"]
    start = (banks - 2) * isa.SHRAM_BANK_BYTES
    return (start + index * 256, start + (index + 1) * 256)


def op_accesses(op, acc):
    """reads / writes of one HwOp: dict region -> interval set.  Region 'shram' for the LUT area."""
    from . import isa

    ncores = isa.ACCELERATORS[acc]["cores"]
    reads, writes = {}, {}

    def add(d, region, iv):
        if iv:
            d.setdefault(region, []).extend(iv)

    if op.kind == "dma":
        d = D.dma_of(op)
        sr = "shram" if d["src_region"] == D.SHRAM_REGION else d["src_region"]
        dr = "shram" if d["dst_region"] == D.SHRAM_REGION else d["dst_region"]
        add(reads, sr, [(d["src"], d["src"] + d["length"])])
        add(writes, dr, [(d["dst"], d["dst"] + d["length"])])
    else:
        f = D.ifm_of(op)
        add(reads, f.region, fm_full(f))
        if D.has_ifm2(op):
            f2 = D.ifm_of(op, "2")
            add(reads, f2.region, fm_full(f2))
        for region, base, ln in D.weight_ranges(op, ncores) + D.scale_ranges(op, ncores):
            add(reads, region, [(base, base + ln)])
        li = D.lut_index(op)
        if li is not None:
            a, b = lut_slot_interval(acc, li)
            if f.bits == 16:  # int16 tables are 512 x uint32 = 2048 bytes
                b = a + 2048
            add(reads, "shram", [(a, b)])
        o = D.ofm_of(op)
        add(writes, o.region, fm_full(o))
    return {k: merge(v) for k, v in reads.items()}, {k: merge(v) for k, v in writes.items()}
