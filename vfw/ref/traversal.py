"""Hardware weight-stream order (DESIGN.md A3) as an index generator.  No Vela imports."""
import functools

import numpy as np


@functools.lru_cache(maxsize=256)
def order(ofm_depth, kh, kw, ifm_depth, ofm_block_depth, ifm_ublock_depth, ofm_ublock_depth, is_depthwise, is_partkernel, ifm_bits, decomp_h, decomp_w):
    """Returns an int64 array [n, 4] of (oc, ky, kx, ic) per stream position, -1 rows for zero padding."""
    out = []
    ifm_block_depth = 16 if (is_partkernel or ifm_bits == 16) else 32
    for ob in range(0, ofm_depth, ofm_block_depth):
        cob = min(ofm_block_depth, ofm_depth - ob)
        for ib in range(0, 1 if is_depthwise else ifm_depth, ifm_block_depth):
            if is_depthwise:
                cib = ifm_ublock_depth
            else:
                cib = min(ifm_block_depth, ifm_depth - ib) if is_partkernel else ifm_block_depth
            for sy in range(0, kh, decomp_h):
                sh = min(kh - sy, decomp_h)
                for sx in range(0, kw, decomp_w):
                    sw = min(kw - sx, decomp_w)
                    n_el = sw * sh
                    if is_partkernel:
                        if ifm_bits == 16 and n_el % 2:
                            n_el += 1
                        elif ifm_bits == 8 and n_el % 4:
                            n_el = -(-n_el // 4) * 4
                    elif is_depthwise:
                        n_el = -(-n_el // 4) * 4
                    outer = cib if is_partkernel else 1
                    inner = 1 if is_partkernel else cib
                    for iuo in range(0, outer, ifm_ublock_depth):
                        for ou in range(0, cob, ofm_ublock_depth):
                            for el in range(n_el):
                                kx, ky = el % sw, el // sw
                                for iui in range(0, inner, ifm_ublock_depth):
                                    for oz in range(ofm_ublock_depth):
                                        for iz in range(1 if is_depthwise else ifm_ublock_depth):
                                            ifm_z = ib + iui + iuo + iz
                                            ofm_z = ob + ou + oz
                                            if ifm_z < ifm_depth and ofm_z < ofm_depth and ky < sh:
                                                out.append((ofm_z, sy + ky, sx + kx, ifm_z))
                                            else:
                                                out.append((-1, -1, -1, -1))
    return np.asarray(out, dtype=np.int64).reshape(-1, 4)


def reorder(w_ohwi, **kw):
    """weights [O, H, W, I] -> stream-order vector (zeros for padding)"""
    o, h, wd, i = w_ohwi.shape
    idx = order(o, h, wd, i, **kw)
    valid = idx[:, 0] >= 0
    out = np.zeros(len(idx), dtype=np.int64)
    out[valid] = w_ohwi[idx[valid, 0], idx[valid, 1], idx[valid, 2], idx[valid, 3]]
    return out


def unreorder(stream, o, h, wd, i, **kw):
    """inverse: stream values -> weights [O,H,W,I]; returns (weights, ok) where ok is False if padding positions are non-zero
    or the stream is shorter than the traversal"""
    idx = order(o, h, wd, i, **kw)
    stream = np.asarray(stream, dtype=np.int64)
    ok = len(stream) >= len(idx)
    n = min(len(stream), len(idx))
    w = np.zeros((o, h, wd, i), dtype=np.int64)
    valid = idx[:n, 0] >= 0
    w[idx[:n][valid, 0], idx[:n][valid, 1], idx[:n][valid, 2], idx[:n][valid, 3]] = stream[:n][valid]
    if (stream[:n][~valid] != 0).any() or (stream[n:] != 0).any():
        ok = False
    return w, ok
