"""Reference kernels for the operators of the network grammar (after the TFLite reference kernels), numpy int64.

evaluate(model, inputs) -> {tensor index: ndarray}.  `model` is the value returned by tfl.read.read_model."""
import math

import numpy as np

from . import quant as Q
from ..tfl import read

EXACT = {"CONV_2D", "DEPTHWISE_CONV_2D", "FULLY_CONNECTED", "MAX_POOL_2D", "RELU", "RELU6", "RELU_N1_TO_1", "ADD", "SUB", "MUL", "MINIMUM", "MAXIMUM",
         "QUANTIZE", "RESHAPE", "CONCATENATION", "SPLIT", "STRIDED_SLICE", "SLICE", "PAD", "SQUEEZE", "EXPAND_DIMS", "DEPTH_TO_SPACE", "NEG", "CUSTOM",
         "LEAKY_RELU", "ABS", "TRANSPOSE", "RESIZE_NEAREST_NEIGHBOR", "TRANSPOSE_CONV"}
APPROX = {"AVERAGE_POOL_2D", "RESIZE_BILINEAR", "LOGISTIC", "TANH", "HARD_SWISH", "MEAN", "SOFTMAX"}
# operators the property statement names in neither list: memory-only ones are exact; table-driven / composed ones are judged to one step
EXACT |= {"PACK", "UNPACK", "SPLIT_V", "SHAPE", "ARG_MAX"}
APPROX |= {"SQUARED_DIFFERENCE", "LOG", "SQRT", "GELU", "EXP", "RSQRT", "PRELU"}
# LEAKY_RELU is implemented by Vela with the reference's own integer arithmetic; counted exact

RANGE = {"int8": (-128, 127), "uint8": (0, 255), "int16": (-32768, 32767), "int32": (-(1 << 31), (1 << 31) - 1)}


class Unsupported(Exception):
    pass


def _mbqm_vec(x, m, e):
    """vectorised MultiplyByQuantizedMultiplier for int64 arrays (values small enough for exact int64 products)"""
    x = np.asarray(x, dtype=object)
    f = np.frompyfunc(lambda v: Q.mbqm(int(v), m, e), 1, 1)
    return f(x).astype(np.int64)


def mbqm_arr(x, m, e):
    x = np.asarray(x, dtype=np.int64)
    if x.size == 0:
        return x
    left = e if e > 0 else 0
    right = -e if e < 0 else 0
    xs = x * (1 << left)
    if np.abs(xs).max(initial=0) < (1 << 31) and m < (1 << 31):
        ab = xs * np.int64(m)  # |ab| < 2^62
        nudge = np.where(ab >= 0, 1 << 30, 1 - (1 << 30))
        t = ab + nudge
        r = np.where(t >= 0, t >> 31, -((-t) >> 31))
        if right:
            mask = (1 << right) - 1
            rem = r & mask
            thr = (mask >> 1) + (r < 0)
            r = (r >> right) + (rem > thr)
        return r
    return _mbqm_vec(x, m, e)


def act_range(act, scale, zp, dtype):
    lo, hi = RANGE[dtype]

    def q(v):
        return zp + int(math.floor(v / scale + 0.5)) if v >= 0 else zp - int(math.floor(-v / scale + 0.5))
    if act == 1:
        lo = max(lo, q(0.0))
    elif act == 2:
        lo, hi = max(lo, q(-1.0)), min(hi, q(1.0))
    elif act == 3:
        lo, hi = max(lo, q(0.0)), min(hi, q(6.0))
    return lo, hi


def _pad_same(in_size, k, s, d):
    dk = d * (k - 1) + 1
    out = -(-in_size // s)
    total = max((out - 1) * s + dk - in_size, 0)
    return out, total // 2, total - total // 2


def _geom(h, k, s, d, padding):
    dk = d * (k - 1) + 1
    if padding == 0:
        return _pad_same(h, k, s, d)
    return (h - dk) // s + 1, 0, 0


def conv2d(x, w, bias, xq, wq, yq, opts, dtype, depthwise=False, dm=1, float_product=False):
    """x [N,H,W,C] int64, w OHWI (or 1HWO for depthwise)"""
    n, h, wd, c = x.shape
    sy, sx = opts["StrideH"], opts["StrideW"]
    dy, dx = opts.get("DilationHFactor", 1), opts.get("DilationWFactor", 1)
    if depthwise:
        kh, kw, co = w.shape[1], w.shape[2], w.shape[3]
    else:
        co, kh, kw = w.shape[0], w.shape[1], w.shape[2]
    oh, pt, pb = _geom(h, kh, sy, dy, opts["Padding"])
    ow, pl, pr = _geom(wd, kw, sx, dx, opts["Padding"])
    xz = x - xq["zp"][0]
    xp = np.zeros((n, h + pt + pb + 64, wd + pl + pr + 64, c), dtype=np.int64)
    xp[:, pt:pt + h, pl:pl + wd, :] = xz
    wz = w.astype(np.int64)
    wzp = np.asarray(wq["zp"], dtype=np.int64)
    acc = np.zeros((n, oh, ow, co), dtype=np.int64)
    for ky in range(kh):
        for kx in range(kw):
            patch = xp[:, ky * dy: ky * dy + (oh - 1) * sy + 1: sy, kx * dx: kx * dx + (ow - 1) * sx + 1: sx, :]
            if depthwise:
                wk = wz[0, ky, kx, :] - (wzp if wzp.size == co else wzp[0])
                if dm == 1:
                    acc += patch * wk
                else:
                    acc += np.repeat(patch, dm, axis=3) * wk
            else:
                wk = wz[:, ky, kx, :] - (wzp[:, None] if wzp.size == co else wzp[0])
                ci = wk.shape[1]
                if ci == c:
                    acc += np.tensordot(patch, wk, axes=([3], [1]))
                else:
                    # grouped convolution (TFLite: filter depth = input depth / groups; output channels are split evenly over the groups)
                    groups = c // ci
                    cg = co // groups
                    for g in range(groups):
                        acc[..., g * cg:(g + 1) * cg] += np.tensordot(patch[..., g * ci:(g + 1) * ci], wk[g * cg:(g + 1) * cg], axes=([3], [1]))
    if bias is not None:
        acc += bias.astype(np.int64)
    out = np.zeros_like(acc)
    ws = wq["scale"]
    for oc in range(co):
        s_w = np.float32(ws[oc if len(ws) == co else 0])
        if dtype == "uint8" or float_product:
            # TFLite GetQuantizedConvolutionMultipler (uint8 convolutions, every FULLY_CONNECTED): the product of the two float32 scales
            # is formed in float32 and only then widened
            real = float(np.float64(np.float32(xq["scale"][0]) * s_w) / np.float64(np.float32(yq["scale"][0])))
        else:
            real = float(np.float64(np.float32(xq["scale"][0])) * np.float64(s_w) / np.float64(np.float32(yq["scale"][0])))
        m, e = Q.quantize_multiplier(real)
        if dtype == "int16":
            # 16x8 kernels accumulate in 64 bits and use the reduced-multiplier form of MultiplyByQuantizedMultiplier(int64)
            red = ((m + (1 << 15)) >> 16) if m < 0x7FFF0000 else 0x7FFF
            total_shift = 15 - e
            a = acc[..., oc].astype(object) * red
            out[..., oc] = np.array([(int(v) + (1 << (total_shift - 1))) >> total_shift for v in a.reshape(-1)], dtype=np.int64).reshape(a.shape)
        else:
            out[..., oc] = mbqm_arr(acc[..., oc], m, e)
    out += yq["zp"][0]
    lo, hi = act_range(opts.get("FusedActivationFunction", 0), float(np.float32(yq["scale"][0])), yq["zp"][0], dtype)
    return np.clip(out, lo, hi)


def transpose_conv(x, w, bias, xq, wq, yq, opts, dtype, out_shape):
    """TFLite TRANSPOSE_CONV (w is OHWI): out[oy, ox, oc] += in[iy, ix, ic] * w[oc, ky, kx, ic] with oy = iy * stride - pad + ky.
    Evaluated as a stride-1 VALID correlation of the zero-inserted, padded input with the spatially flipped kernel; inserted and padded
    positions hold the input zero point (they contribute nothing)."""
    n, h, wd, c = x.shape
    sy, sx = opts["StrideH"], opts["StrideW"]
    co, kh, kw = w.shape[0], w.shape[1], w.shape[2]
    oh, ow = int(out_shape[1]), int(out_shape[2])

    def pads(insz, k, s_, outsz):
        total = max((insz - 1) * s_ + k - outsz, 0) if opts["Padding"] == 0 else 0
        before = total // 2
        up = (insz - 1) * s_ + 1
        lo = k - 1 - before
        hi = outsz + k - 1 - lo - up
        return lo, hi, up

    lo_y, hi_y, up_h = pads(h, kh, sy, oh)
    lo_x, hi_x, up_w = pads(wd, kw, sx, ow)
    if min(lo_y, hi_y, lo_x, hi_x) < 0:
        raise Unsupported("transpose convolution geometry")
    zp = int(xq["zp"][0])
    xu = np.full((n, up_h + lo_y + hi_y, up_w + lo_x + hi_x, c), zp, dtype=np.int64)
    xu[:, lo_y:lo_y + up_h:sy, lo_x:lo_x + up_w:sx, :] = x
    wf = np.ascontiguousarray(w[:, ::-1, ::-1, :])
    o2 = dict(StrideH=1, StrideW=1, Padding=1, FusedActivationFunction=opts.get("FusedActivationFunction", 0))
    return conv2d(xu, wf, bias, xq, wq, yq, o2, dtype)


def pool(x, opts, dtype, kind, yq):
    n, h, wd, c = x.shape
    kh, kw, sy, sx = opts["FilterHeight"], opts["FilterWidth"], opts["StrideH"], opts["StrideW"]
    oh, pt, pb = _geom(h, kh, sy, 1, opts["Padding"])
    ow, pl, pr = _geom(wd, kw, sx, 1, opts["Padding"])
    out = np.zeros((n, oh, ow, c), dtype=np.int64)
    for oy in range(oh):
        for ox in range(ow):
            y0, x0 = oy * sy - pt, ox * sx - pl
            ya, yb = max(y0, 0), min(y0 + kh, h)
            xa, xb = max(x0, 0), min(x0 + kw, wd)
            win = x[:, ya:yb, xa:xb, :]
            if kind == "max":
                out[:, oy, ox, :] = win.max(axis=(1, 2))
            else:
                cnt = (yb - ya) * (xb - xa)
                acc = win.sum(axis=(1, 2))
                if dtype == "uint8":
                    out[:, oy, ox, :] = (acc + cnt // 2) // cnt
                else:
                    out[:, oy, ox, :] = np.where(acc > 0, (acc + cnt // 2) // cnt, -((-acc + cnt // 2) // cnt))
    lo, hi = act_range(opts.get("FusedActivationFunction", 0), float(np.float32(yq["scale"][0])), yq["zp"][0], dtype)
    return np.clip(out, lo, hi)


def add_sub(a, b, aq, bq, yq, opts, dtype, sub=False):
    s1, s2, so = (float(np.float64(np.float32(q["scale"][0]))) for q in (aq, bq, yq))
    left = 15 if dtype == "int16" else 20
    twice = 2.0 * max(s1, s2)
    m1, e1 = Q.quantize_multiplier(s1 / twice)
    m2, e2 = Q.quantize_multiplier(s2 / twice)
    mo, eo = Q.quantize_multiplier(twice / ((1 << left) * so))
    a1 = mbqm_arr((a - aq["zp"][0]) * (1 << left), m1, e1)
    b1 = mbqm_arr((b - bq["zp"][0]) * (1 << left), m2, e2)
    raw = a1 - b1 if sub else a1 + b1
    out = mbqm_arr(raw, mo, eo) + yq["zp"][0]
    lo, hi = act_range(opts.get("FusedActivationFunction", 0), float(np.float32(yq["scale"][0])), yq["zp"][0], dtype)
    return np.clip(out, lo, hi)


def mul(a, b, aq, bq, yq, opts, dtype):
    real = float(np.float64(np.float32(aq["scale"][0])) * np.float64(np.float32(bq["scale"][0])) / np.float64(np.float32(yq["scale"][0])))
    m, e = Q.quantize_multiplier(real)
    out = mbqm_arr((a - aq["zp"][0]) * (b - bq["zp"][0]), m, e) + yq["zp"][0]
    lo, hi = act_range(opts.get("FusedActivationFunction", 0), float(np.float32(yq["scale"][0])), yq["zp"][0], dtype)
    return np.clip(out, lo, hi)


def requant(x, xq, yq, dtype):
    real = float(np.float64(np.float32(xq["scale"][0])) / np.float64(np.float32(yq["scale"][0])))
    m, e = Q.quantize_multiplier(real)
    lo, hi = RANGE[dtype]
    return np.clip(mbqm_arr(x - xq["zp"][0], m, e) + yq["zp"][0], lo, hi)


def real_unary(x, xq, yq, dtype, fn):
    lo, hi = RANGE[dtype]
    real = (x - xq["zp"][0]).astype(np.float64) * float(np.float32(xq["scale"][0]))
    y = fn(real) / float(np.float32(yq["scale"][0]))
    q = np.where(y >= 0, np.floor(y + 0.5), -np.floor(-y + 0.5)).astype(np.int64) + yq["zp"][0]
    return np.clip(q, lo, hi)


def eval_op(op, ins, t_in, t_out):
    """ins: list of int64 arrays (None for omitted), t_in/t_out: tensor dicts. Returns list of outputs."""
    name = op["op"]
    o = (op["opts"] or (None, {}))[1]
    dt = t_out[0]["dtype"]
    yq = t_out[0]["quant"]
    if name == "CONV_2D":
        return [conv2d(ins[0], ins[1], ins[2] if len(ins) > 2 else None, t_in[0]["quant"], t_in[1]["quant"], yq, o, dt)]
    if name == "TRANSPOSE_CONV":
        # operands: output shape, weights (OHWI), input, optional bias
        return [transpose_conv(ins[2], ins[1], ins[3] if len(ins) > 3 and ins[3] is not None else None, t_in[2]["quant"], t_in[1]["quant"], yq, o, dt, ins[0].reshape(-1))]
    if name == "DEPTHWISE_CONV_2D":
        return [conv2d(ins[0], ins[1], ins[2] if len(ins) > 2 else None, t_in[0]["quant"], t_in[1]["quant"], yq, o, dt, depthwise=True, dm=o.get("DepthMultiplier", 1))]
    if name == "FULLY_CONNECTED":
        x = ins[0].reshape(-1, ins[1].shape[1])
        w = ins[1].reshape(ins[1].shape[0], 1, 1, ins[1].shape[1])
        y = conv2d(x.reshape(x.shape[0], 1, 1, x.shape[1]), w, ins[2] if len(ins) > 2 else None, t_in[0]["quant"], t_in[1]["quant"], yq,
                   dict(StrideH=1, StrideW=1, Padding=1, FusedActivationFunction=o.get("FusedActivationFunction", 0)), dt, float_product=True)
        return [y.reshape(t_out[0]["shape"])]
    if name == "MAX_POOL_2D":
        return [pool(ins[0], o, dt, "max", yq)]
    if name == "AVERAGE_POOL_2D":
        return [pool(ins[0], o, dt, "avg", yq)]
    if name in ("ADD", "SUB"):
        a, b = np.broadcast_arrays(ins[0], ins[1])
        return [add_sub(a, b, t_in[0]["quant"], t_in[1]["quant"], yq, o, dt, sub=(name == "SUB"))]
    if name == "MUL":
        a, b = np.broadcast_arrays(ins[0], ins[1])
        return [mul(a, b, t_in[0]["quant"], t_in[1]["quant"], yq, o, dt)]
    if name in ("MINIMUM", "MAXIMUM"):
        a, b = np.broadcast_arrays(ins[0], ins[1])
        return [np.minimum(a, b) if name == "MINIMUM" else np.maximum(a, b)]
    if name in ("RELU", "RELU6", "RELU_N1_TO_1"):
        act = {"RELU": 1, "RELU_N1_TO_1": 2, "RELU6": 3}[name]
        x = ins[0]
        xq = t_in[0]["quant"]
        if xq["scale"] != yq["scale"] or xq["zp"] != yq["zp"]:
            x = requant(x, xq, yq, dt)
        lo, hi = act_range(act, float(np.float32(yq["scale"][0])), yq["zp"][0], dt)
        return [np.clip(x, lo, hi)]
    if name == "LEAKY_RELU":
        xq = t_in[0]["quant"]
        lo, hi = RANGE[dt]
        s_in, s_out = float(np.float64(np.float32(xq["scale"][0]))), float(np.float64(np.float32(yq["scale"][0])))
        alpha = float(np.float32(o["Alpha"]))
        mi, ei = Q.quantize_multiplier(s_in / s_out)
        ma, ea = Q.quantize_multiplier(s_in * alpha / s_out)
        v = ins[0] - xq["zp"][0]
        return [np.clip(np.where(v >= 0, mbqm_arr(v, mi, ei), mbqm_arr(v, ma, ea)) + yq["zp"][0], lo, hi)]
    if name == "LOGISTIC":
        return [real_unary(ins[0], t_in[0]["quant"], yq, dt, lambda r: 1.0 / (1.0 + np.exp(-r)))]
    if name == "TANH":
        return [real_unary(ins[0], t_in[0]["quant"], yq, dt, np.tanh)]
    if name == "HARD_SWISH":
        return [real_unary(ins[0], t_in[0]["quant"], yq, dt, lambda r: r * np.clip(r + 3.0, 0.0, 6.0) / 6.0)]
    if name == "QUANTIZE":
        return [requant(ins[0], t_in[0]["quant"], yq, dt)]
    if name in ("RESHAPE", "SQUEEZE", "EXPAND_DIMS"):
        return [ins[0].reshape(t_out[0]["shape"])]
    if name == "CONCATENATION":
        return [np.concatenate([i for i in ins if i is not None], axis=o["Axis"])]
    if name == "SPLIT":
        ax = int(np.asarray(ins[0]).reshape(-1)[0])
        return list(np.split(ins[1], o["NumSplits"], axis=ax))
    if name == "STRIDED_SLICE":
        b, e, s = (np.asarray(i).reshape(-1) for i in ins[1:4])
        if any(o.get(k, 0) for k in ("BeginMask", "EndMask", "EllipsisMask", "NewAxisMask", "ShrinkAxisMask")):
            raise Unsupported("strided slice masks")
        sl = tuple(slice(int(bb), int(ee), int(ss)) for bb, ee, ss in zip(b, e, s))
        return [ins[0][sl]]
    if name == "SLICE":
        b, sz = (np.asarray(i).reshape(-1) for i in ins[1:3])
        sl = tuple(slice(int(bb), int(bb) + int(ss)) for bb, ss in zip(b, sz))
        return [ins[0][sl]]
    if name == "PAD":
        p = np.asarray(ins[1]).reshape(-1, 2)
        return [np.pad(ins[0], [(int(a), int(b)) for a, b in p], constant_values=t_in[0]["quant"]["zp"][0])]
    if name == "MEAN":
        ax = tuple(int(a) for a in np.asarray(ins[1]).reshape(-1))
        xq = t_in[0]["quant"]
        lo, hi = RANGE[dt]
        real = (ins[0] - xq["zp"][0]).astype(np.float64).mean(axis=ax, keepdims=bool(o.get("KeepDims"))) * float(np.float32(xq["scale"][0]))
        y = real / float(np.float32(yq["scale"][0]))
        q = np.where(y >= 0, np.floor(y + 0.5), -np.floor(-y + 0.5)).astype(np.int64) + yq["zp"][0]
        return [np.clip(q, lo, hi).reshape(t_out[0]["shape"])]
    if name == "RESIZE_NEAREST_NEIGHBOR":
        n, h, w, c = ins[0].shape
        oh, ow = (int(v) for v in np.asarray(ins[1]).reshape(-1))
        ac, hp = bool(o.get("AlignCorners")), bool(o.get("HalfPixelCenters"))

        def nearest(osz, isz):
            # TFLite reference GetNearestNeighbor (float32 arithmetic, TfLiteRound = half away from zero)
            scale = np.float32(isz - 1) / np.float32(osz - 1) if (ac and osz > 1) else np.float32(isz) / np.float32(osz)
            off = np.float32(0.5) if hp else np.float32(0.0)
            v = (np.arange(osz, dtype=np.float32) + off) * scale
            idx = np.floor(v + np.float32(0.5)) if ac else np.floor(v)
            return np.minimum(idx.astype(np.int64), isz - 1)

        yi, xi = nearest(oh, h), nearest(ow, w)
        return [ins[0][:, yi][:, :, xi]]
    if name == "SOFTMAX":
        xq = t_in[0]["quant"]
        lo, hi = RANGE[dt]
        real = (ins[0] - xq["zp"][0]).astype(np.float64) * float(np.float32(xq["scale"][0])) * float(o.get("Beta", 1.0))
        ex = np.exp(real - real.max(axis=-1, keepdims=True))
        p = ex / ex.sum(axis=-1, keepdims=True)
        y = p / float(np.float32(yq["scale"][0]))
        return [np.clip(np.floor(y + 0.5).astype(np.int64) + yq["zp"][0], lo, hi)]
    if name == "DEPTH_TO_SPACE":
        bs = o["BlockSize"]
        n, h, w, c = ins[0].shape
        x = ins[0].reshape(n, h, w, bs, bs, c // (bs * bs))
        return [x.transpose(0, 1, 3, 2, 4, 5).reshape(n, h * bs, w * bs, c // (bs * bs))]
    if name == "NEG":
        lo, hi = RANGE[dt]
        return [np.clip(-(ins[0] - t_in[0]["quant"]["zp"][0]) + yq["zp"][0], lo, hi)]
    if name == "ABS":
        lo, hi = RANGE[dt]
        return [np.clip(np.abs(ins[0] - t_in[0]["quant"]["zp"][0]) + yq["zp"][0], lo, hi)]
    if name == "TRANSPOSE":
        perm = [int(v) for v in np.asarray(ins[1]).reshape(-1)]
        return [ins[0].transpose(perm)]
    if name == "PACK":
        return [np.stack([i for i in ins], axis=o.get("Axis", 0))]
    if name == "UNPACK":
        ax = o.get("Axis", 0)
        return [np.take(ins[0], k, axis=ax) for k in range(ins[0].shape[ax])]
    if name == "SPLIT_V":
        sizes = [int(v) for v in np.asarray(ins[1]).reshape(-1)]
        ax = int(np.asarray(ins[2]).reshape(-1)[0])
        if -1 in sizes:
            sizes[sizes.index(-1)] = ins[0].shape[ax] - (sum(sizes) + 1)
        return list(np.split(ins[0], np.cumsum(sizes)[:-1], axis=ax))
    if name == "SHAPE":
        return [np.asarray(ins[0].shape, dtype=np.int64)]
    if name == "ARG_MAX":
        ax = int(np.asarray(ins[1]).reshape(-1)[0])
        return [np.argmax(ins[0], axis=ax).astype(np.int64)]
    if name == "SQUARED_DIFFERENCE":
        # TFLite reference (squared_difference.cc): left shift 7 (int8) / 0 (int16), operands rescaled to twice the larger input scale
        if dt != "int8":
            raise Unsupported("SQUARED_DIFFERENCE %s" % dt)  # the 16-bit reference squares a 17-bit difference in 32 bits: undefined on overflow
        a, b = np.broadcast_arrays(ins[0], ins[1])
        q1, q2 = t_in[0]["quant"], t_in[1]["quant"]
        lo, hi = RANGE[dt]
        ls = 0 if dt == "int16" else 7
        s1, s2, so = (float(np.float64(np.float32(q["scale"][0]))) for q in (q1, q2, yq))
        twice = 2.0 * max(s1, s2)
        m1, e1 = Q.quantize_multiplier(s1 / twice)
        m2, e2 = Q.quantize_multiplier(s2 / twice)
        mo, eo = Q.quantize_multiplier((twice * twice) / ((1 << (2 * ls)) * so))
        v1 = mbqm_arr((a - q1["zp"][0]) * (1 << ls), m1, e1)
        v2 = mbqm_arr((b - q2["zp"][0]) * (1 << ls), m2, e2)
        d = v1 - v2
        return [np.clip(mbqm_arr(d * d, mo, eo) + yq["zp"][0], lo, hi)]
    if name in ("LOG", "SQRT", "GELU", "EXP", "RSQRT"):
        if dt != "int8":
            raise Unsupported("%s %s" % (name, dt))

        def fn(r):
            with np.errstate(all="ignore"):
                if name == "LOG":
                    return np.where(r > 0, np.log(np.where(r > 0, r, 1.0)), -1e30)
                if name == "SQRT":
                    return np.sqrt(np.maximum(r, 0.0))
                if name == "EXP":
                    return np.exp(r)
                if name == "RSQRT":
                    return np.where(r > 0, 1.0 / np.sqrt(np.where(r > 0, r, 1.0)), 1e30)
                if o.get("Approximate"):
                    return 0.5 * r * (1.0 + np.tanh(math.sqrt(2.0 / math.pi) * (r + 0.044715 * r ** 3)))
                return 0.5 * r * (1.0 + np.vectorize(math.erf)(r / math.sqrt(2.0)))
        return [real_unary(ins[0], t_in[0]["quant"], yq, dt, fn)]
    if name == "PRELU":
        xq, aq = t_in[0]["quant"], t_in[1]["quant"]
        lo, hi = RANGE[dt]
        s_in, s_a, s_out = (float(np.float64(np.float32(q["scale"][0]))) for q in (xq, aq, yq))
        m1, e1 = Q.quantize_multiplier(s_in / s_out)
        m2, e2 = Q.quantize_multiplier(s_in * s_a / s_out)
        x, a = np.broadcast_arrays(ins[0], ins[1])
        v = x - xq["zp"][0]
        return [np.clip(np.where(v >= 0, mbqm_arr(v, m1, e1), mbqm_arr(v * (a - aq["zp"][0]), m2, e2)) + yq["zp"][0], lo, hi)]
    if name == "CUSTOM" and op["custom_code"] != "ethos-u":
        lo, hi = RANGE.get(dt, (-(1 << 31), (1 << 31) - 1))
        return [np.clip(lo + hi - ins[0], lo, hi)]  # uninterpreted third-party op: a fixed bijection of the code range
    raise Unsupported(name)


def evaluate(model, inputs, npu_executor=None, store=None, load=None):
    """inputs: {tensor index: int64 array}.  npu_executor(op index, op, values) -> {tensor index: array} for ethos-u ops.
    store(ti, value) is called for every value a CPU operator (or the caller, for inputs) produces; load(ti, value) returns the value a CPU
    operator actually sees for operand ti (the caller may read it back from a memory image) - both optional."""
    sg = model["subgraphs"][0]
    vals = dict(inputs)
    if store is not None:
        for ti, v in inputs.items():
            store(ti, v)
    for ti, t in enumerate(sg["tensors"]):
        if ti not in vals:
            d = read.tensor_data(model, 0, ti)
            if d is not None and t["dtype"] in RANGE or (d is not None and t["dtype"] == "int64"):
                vals[ti] = np.asarray(d).astype(np.int64)
    for oi, op in enumerate(sg["ops"]):
        if op["custom_code"] == "ethos-u":
            if npu_executor is None:
                raise Unsupported("ethos-u")
            vals.update(npu_executor(oi, op, vals))
            continue
        ins = [vals.get(i) if i >= 0 else None for i in op["inputs"]]
        if any(v is None and i >= 0 for v, i in zip(ins, op["inputs"])):
            raise Unsupported("operand of %s has no value" % op["op"])
        if load is not None:
            ins = [load(i, v) if i >= 0 else None for i, v in zip(op["inputs"], ins)]
        t_in = [sg["tensors"][i] if i >= 0 else None for i in op["inputs"]]
        t_out = [sg["tensors"][i] for i in op["outputs"]]
        outs = eval_op(op, ins, t_in, t_out)
        for i, v in zip(op["outputs"], outs):
            vals[i] = np.asarray(v).astype(np.int64)
            if store is not None:
                store(i, vals[i])
    return vals
