"""Shared-buffer layout oracle (DESIGN.md A4), from pinned bank counts / granules / micro-blocks only."""
import math

from ..npu import isa


def ru(a, b):
    return -(-a // b) * b


def rud(a, b):
    return -(-a // b)


def required(acc, kind, ifm_bits, ofm_block, ifm_depth, dkh, dkw, sy, sx, upscale, part_kernel, acc_bits, scalar_ifm2=False):
    """ofm_block = (h, w, d).  Returns dict(ifm_banks, acc_banks) - the minimum partition sizes (double-buffered, at granule).
    kind: conv / depthwise / pool / reduce_sum / elementwise"""
    a = isa.ACCELERATORS[acc]
    uw, uh, ud = a["ifm_ublock"]
    g = a["granules"]
    bh, bw, bd = ofm_block
    up = 2 if upscale else 1
    nearest = 1 if upscale == 1 else 0
    if kind == "elementwise":
        ih, iw = bh, bw
        idepth = bd
        gi = g[{8: 2, 16: 3, 32: 4}[ifm_bits]]
    else:
        ih = ru(int(math.ceil(((bh - 1) * sy + min(dkh, 8) + nearest) / up)), uh)
        iw = ru(int(math.ceil(((bw - 1) * sx + min(dkw, 8) + nearest) / up)), uw)
        gi = g[{8: 0, 16: 1, 32: 4}[ifm_bits]]
        if kind in ("conv", "reduce_sum"):
            if ifm_bits == 16:
                idepth = ru(min(ifm_depth, 16), 4)
            elif ifm_bits == 32:
                idepth = ru(min(ifm_depth, 8), ud) if False else ru(min(ifm_depth, 32), ud)
            else:
                idepth = ru(min(ifm_depth, 16 if part_kernel else 32), ud)
        else:
            idepth = bd
    ifm_bytes = ih * iw * ru(idepth * ifm_bits // 8, 8)
    ifm_banks = ru(2 * rud(ifm_bytes, isa.SHRAM_BANK_BYTES), gi)
    if kind == "elementwise":
        acc_banks = 0
    else:
        ga = {16: g[5], 32: g[6], 40: g[7]}[acc_bits]
        acc_bytes = bh * bw * ru(bd, 8) * acc_bits // 8
        acc_banks = ru(2 * rud(acc_bytes, isa.SHRAM_BANK_BYTES), ga)
    return dict(ifm_banks=ifm_banks, acc_banks=acc_banks, ifm_block=(ih, iw, idepth))


def check_registers(acc, kind, sub, regs_get, ifm_bits, ifm_depth, ofm_hw=None):
    """Validate block config + SHRAM registers of one kernel op.  regs_get(name) -> int.  Returns list of tags."""
    a = isa.ACCELERATORS[acc]
    uw, uh, ud = a["ofm_ublock"]
    banks = a["banks"]
    tags = []
    bh, bw, bd = regs_get("OFM_BLK_HEIGHT_M1") + 1, regs_get("OFM_BLK_WIDTH_M1") + 1, regs_get("OFM_BLK_DEPTH_M1") + 1
    if bh % uh or bw % uw or bd % ud:
        tags.append("block %dx%dx%d not a multiple of the micro-block %dx%dx%d" % (bh, bw, bd, uh, uw, ud))
    if bh > isa.MAX_BLOCK[1] or bw > isa.MAX_BLOCK[0] or bd > isa.MAX_BLOCK[2]:
        tags.append("block %dx%dx%d exceeds the maximum block" % (bh, bw, bd))
    act = regs_get("ACTIVATION") & 0x1F
    uses_lut = act >= 16
    reserved_end = 2 if banks > 16 else 0
    lut_start = banks - max(2 if uses_lut else 0, reserved_end)
    ib_start = 2
    ib_end = regs_get("IFM_IB_END")
    ab_start = regs_get("AB_START")
    accf = regs_get("ACC_FORMAT")
    acc_bits = {0: 32, 1: 40, 2: 16}.get(accf, 32)
    ks = regs_get("KERNEL_STRIDE")
    sx = ((ks & 1) | (((ks >> 6) & 7) << 1)) + 1
    sy = (((ks >> 1) & 1) | (((ks >> 9) & 7) << 1)) + 1
    dkh, dkw = regs_get("KERNEL_HEIGHT_M1") + 1, regs_get("KERNEL_WIDTH_M1") + 1
    k = "reduce_sum" if (kind == "pool" and sub == "REDUCE_SUM") else kind
    if k == "elementwise":
        dkh = dkw = sx = sy = 1
    # 1-D special case: OFM height 1 and kernel height 1 on a micro-block of height 2 accumulates a single row
    eff_bh = bh
    if ofm_hw is not None and ofm_hw[0] == 1 and dkh == 1 and uh == 2 and k != "elementwise":
        eff_bh = 1
    need = required(acc, k, ifm_bits, (eff_bh, bw, bd), ifm_depth, dkh, dkw, sy, sx, regs_get("IFM_UPSCALE"), bool(ks & 4), acc_bits)
    if k != "elementwise" and eff_bh != bh:
        need_ifm = required(acc, k, ifm_bits, (bh, bw, bd), ifm_depth, dkh, dkw, sy, sx, regs_get("IFM_UPSCALE"), bool(ks & 4), acc_bits)
        # the accumulators shrink to one row, the IFM buffers do not: the engine still sweeps whole micro-blocks, so the IFM block is the one of
        # the configured OFM block (with a vertical stride it is taller than the single row suggests)
        need["ifm_banks"] = need_ifm["ifm_banks"]
        need["ifm_block"] = need_ifm.get("ifm_block", need.get("ifm_block"))
    if not (ib_start <= ib_end <= ab_start <= lut_start <= banks):
        tags.append("partitions out of order: ib_start=%d ib_end=%d ab_start=%d lut_start=%d banks=%d" % (ib_start, ib_end, ab_start, lut_start, banks))
    if k == "elementwise":
        binary_full = sub not in ("LRELU", "ABS", "CLZ") and not (regs_get("IFM2_BROADCAST") & 0x80)
        if binary_full:
            ib2 = regs_get("IFM2_IB_START")
            if ib2 - ib_start < need["ifm_banks"]:
                tags.append("IFM partition [%d,%d) smaller than %d banks" % (ib_start, ib2, need["ifm_banks"]))
            if lut_start - ib2 < need["ifm_banks"]:
                tags.append("IFM2 partition [%d,%d) smaller than %d banks" % (ib2, lut_start, need["ifm_banks"]))
            if not (ib_start <= ib2 <= lut_start):
                tags.append("IFM2 partition start %d outside [%d,%d]" % (ib2, ib_start, lut_start))
        else:
            if min(ib_end, lut_start) - ib_start < need["ifm_banks"]:
                tags.append("IFM partition [%d,%d) smaller than %d banks" % (ib_start, ib_end, need["ifm_banks"]))
    else:
        if ib_end - ib_start < need["ifm_banks"]:
            tags.append("IFM partition [%d,%d) smaller than %d banks (ifm block %s)" % (ib_start, ib_end, need["ifm_banks"], need["ifm_block"]))
        if lut_start - ab_start < need["acc_banks"]:
            tags.append("accumulator partition [%d,%d) smaller than %d banks" % (ab_start, lut_start, need["acc_banks"]))
    return tags


def usage_end_bank(acc, kind, sub, regs_get, ifm_bits, ifm_depth, ofm_hw=None):
    """first bank NOT touched by the operation's IFM buffers / accumulators (from the programmed partition starts and the minimum
    partition sizes of `required`)."""
    a = isa.ACCELERATORS[acc]
    uw, uh, ud = a["ofm_ublock"]
    bh, bw, bd = regs_get("OFM_BLK_HEIGHT_M1") + 1, regs_get("OFM_BLK_WIDTH_M1") + 1, regs_get("OFM_BLK_DEPTH_M1") + 1
    accf = regs_get("ACC_FORMAT")
    acc_bits = {0: 32, 1: 40, 2: 16}.get(accf, 32)
    ks = regs_get("KERNEL_STRIDE")
    sx = ((ks & 1) | (((ks >> 6) & 7) << 1)) + 1
    sy = (((ks >> 1) & 1) | (((ks >> 9) & 7) << 1)) + 1
    dkh, dkw = regs_get("KERNEL_HEIGHT_M1") + 1, regs_get("KERNEL_WIDTH_M1") + 1
    k = "reduce_sum" if (kind == "pool" and sub == "REDUCE_SUM") else kind
    if k == "elementwise":
        dkh = dkw = sx = sy = 1
    eff_bh = bh
    if ofm_hw is not None and ofm_hw[0] == 1 and dkh == 1 and uh == 2 and k != "elementwise":
        eff_bh = 1
    need = required(acc, k, ifm_bits, (eff_bh, bw, bd), ifm_depth, dkh, dkw, sy, sx, regs_get("IFM_UPSCALE"), bool(ks & 4), acc_bits)
    if k == "elementwise":
        binary_full = sub not in ("LRELU", "ABS", "CLZ") and not (regs_get("IFM2_BROADCAST") & 0x80)
        # the operation is told that its IFM buffers extend to IFM_IB_END: every bank below that mark is the operation's to overwrite
        if binary_full:
            return max(regs_get("IFM2_IB_START") + need["ifm_banks"], regs_get("IFM_IB_END"))
        return max(2 + need["ifm_banks"], regs_get("IFM_IB_END"))
    return regs_get("AB_START") + need["acc_banks"]
