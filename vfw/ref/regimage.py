"""Expected register image of one NPU operation (C06 oracle), written from the register semantics pinned in
vfw/npu/decode.py and vfw/npu/isa.py - never from the generator.

plain(op)         : api.Npu*Operation -> plain dict (JSON-able)
expected(p, acc)  : plain dict -> (regs, skipped): regs = {register name: value the hardware must see at NPU_OP};
                    cmd1 scale registers are (payload, param) pairs, cmd1 address registers are 40 bit ints,
                    cmd0 registers are the 16 bit parameter as written (two's complement for signed fields).
                    skipped = names whose value this model does not derive (scaling derived from quantisation, SHRAM layout):
                    those are judged by the singleton differential and by vfw/ref/shram.py in the driver.
illegal(p, acc)   : reasons why the hardware alignment rules forbid the operation (the generator must then raise)."""
import numpy as np

from ..npu import isa

DTYPES = {"UINT8": (8, 0), "INT8": (8, 1), "UINT16": (16, 0), "INT16": (16, 1), "INT32": (32, 1)}
ROUNDING = {"TFL": 0, "TRUNCATE": 1, "NATURAL": 2}
UPSCALE = {"NONE": 0, "NEAREST": 1, "TRANSPOSE": 2}
ACTIVATION = {"NONE_OR_RELU": 0, "TANH": 3, "SIGMOID": 4}
GLOBAL_SCALE_EW = ("ADD", "SUB", "MUL", "LRELU", "ABS")
UNARY = ("LRELU", "ABS", "CLZ")
SHRAM_REGS = ("IFM_IB_END", "AB_START", "IFM2_IB_START", "ACC_FORMAT")


def _fm(f):
    if f is None:
        return None
    q = f.quantization
    return dict(dt=f.data_type.name, region=int(f.region), shape=[int(f.shape.height), int(f.shape.width), int(f.shape.depth)],
                tiles=dict(h0=int(f.tiles.height_0), h1=int(f.tiles.height_1), w0=int(f.tiles.width_0), addr=[int(a) for a in f.tiles.addresses]),
                layout=f.layout.name, zp=None if q is None else int(q.zero_point), scale=None if q is None or q.scale_f32 is None else float(q.scale_f32),
                strides=None if f.strides is None else [int(f.strides.height), int(f.strides.width), int(f.strides.depth)])


def plain(op):
    t = type(op).__name__
    if t == "NpuDmaOperation":
        return dict(kind="dma", src=[int(x) for x in op.src], dst=[int(x) for x in op.dest], channel=int(op.channel), mode=int(op.mode))
    kind = {"NpuConv2DOperation": "conv", "NpuConvDepthWiseOperation": "depthwise", "NpuPoolingOperation": "pool", "NpuElementWiseOperation": "elementwise"}[t]
    p = dict(kind=kind, sub=op.sub_op_type.name if kind in ("pool", "elementwise") else None)
    p["ifm"], p["ifm2"], p["ofm"] = _fm(op.ifm), _fm(op.ifm2), _fm(op.ofm)
    p["scalar"] = None if op.ifm2_scalar is None else float(op.ifm2_scalar)
    k = op.kernel
    p["kernel"] = None if k is None else [int(k.width), int(k.height), int(k.stride_x), int(k.stride_y), int(k.dilation_x), int(k.dilation_y)]
    p["pad"] = None if op.padding is None else [int(op.padding.top), int(op.padding.left), int(op.padding.bottom), int(op.padding.right)]
    p["weights"] = [[int(x) for x in w] for w in op.weights]
    p["biases"] = [[int(x) for x in w] for w in op.biases]
    a = op.activation
    p["act"] = None if a is None else dict(op=a.op_type.name, min=a.min, max=a.max, lut=int(a.lookup_table_index))
    p["block"] = [int(op.block_config.height), int(op.block_config.width), int(op.block_config.depth)]
    p["rounding"] = op.rounding_mode.name
    p["upscale"] = op.ifm_upscale.name
    p["fused_quantize"] = bool(op.fused_quantize)
    p["traversal"] = op.block_traversal.name if kind == "conv" else "DEPTH_FIRST"
    p["reversed"] = bool(getattr(op, "reversed_operands", False))
    r = getattr(op, "rescale", None)
    if r is None:
        p["rescale"] = None
    elif type(r).__name__ == "ExplicitScaling":
        p["rescale"] = dict(explicit=True, per_channel=bool(r.per_channel), mult=[int(x) for x in r.multiplier], shift=[int(x) for x in r.shift])
    elif isinstance(r, (tuple, list)):
        p["rescale"] = [int(r[0]), int(r[1])]
    else:
        p["rescale"] = float(r)
    return p


def default_strides(f):
    """(stride_y, stride_x, stride_c) of a densely stored feature map"""
    es = DTYPES[f["dt"]][0] // 8
    h, w, c = f["shape"]
    if f["layout"] == "NHWC":
        return [w * c * es, c * es, es]
    c16 = -(-c // 16) * 16
    return [es * w * c16, 16 * es, 16 * es * w]


def u16(v):
    return int(v) & 0xFFFF


def fits16(v, signed):
    return (-32768 <= v <= 32767) if signed else (0 <= v <= 65535)


def _quantise(value, f):
    scale = 1.0 if f["scale"] is None else f["scale"]
    zp = 0 if f["zp"] is None else f["zp"]
    x = float(np.float32(value) / np.float32(scale))
    r = int(np.floor(abs(x) + 0.5)) * (1 if x >= 0 else -1)
    return zp + r


def _fm_regs(R, T, prefix, f, with_shape):
    """T collects (name, true value, signed) for the truncation check"""
    R[prefix + "_REGION"] = f["region"]
    for i in range(4):
        R[prefix + "_BASE%d" % i] = f["tiles"]["addr"][i]
    h, w, c = f["shape"]
    t = f["tiles"]
    T.append((prefix + "_HEIGHT0_M1", t["h0"] - 1, False))
    T.append((prefix + "_WIDTH0_M1", t["w0"] - 1, False))
    R[prefix + "_HEIGHT0_M1"] = u16(t["h0"] - 1)
    R[prefix + "_WIDTH0_M1"] = u16(t["w0"] - 1)
    if w > t["w0"]:  # tile 1 (and 3) in use: HEIGHT1 is read by the hardware
        T.append((prefix + "_HEIGHT1_M1", t["h1"] - 1, False))
        R[prefix + "_HEIGHT1_M1"] = u16(t["h1"] - 1)
    sy, sx, sc = f["strides"] or default_strides(f)
    R[prefix + "_STRIDE_Y"], R[prefix + "_STRIDE_X"], R[prefix + "_STRIDE_C"] = sy, sx, sc
    zp = 0 if f["zp"] is None else f["zp"]
    T.append((prefix + "_ZERO_POINT", zp, True if zp < 0 else False))
    R[prefix + "_ZERO_POINT"] = u16(zp)
    if with_shape:
        for n, v in (("OFM_HEIGHT_M1", h - 1), ("OFM_WIDTH_M1", w - 1), ("OFM_DEPTH_M1", c - 1)):
            T.append((n, v, False))
            R[n] = u16(v)


def _ifm_precision(f):
    bits, signed = DTYPES[f["dt"]]
    return signed | ({8: 0, 16: 1, 32: 2}[bits] << 2) | ((1 << 6) if f["layout"] == "NHCWB16" else 0)


def uses_global_scale(p):
    if p["kind"] == "elementwise":
        return p["sub"] in GLOBAL_SCALE_EW
    if p["kind"] == "pool":
        r = p.get("rescale")
        if isinstance(r, dict) and r.get("explicit"):
            return not r["per_channel"]
        return p["sub"] in ("AVERAGE", "REDUCE_SUM") and sum(p["pad"] or [0]) == 0
    return False


def has_ifm2_fm(p):
    return p["kind"] == "elementwise" and p["sub"] not in UNARY and p["scalar"] is None


def expected(p, acc):
    a = isa.ACCELERATORS[acc]
    R, T, skipped = {}, [], set()
    if a["product"] == 1:
        R["PARALLEL_MODE"] = a["cores"] - 1
    if p["kind"] == "dma":
        R["DMA0_SRC_REGION"], R["DMA0_SRC"] = p["src"][0], p["src"][1]
        R["DMA0_DST_REGION"], R["DMA0_DST"] = p["dst"][0], p["dst"][1]
        R["DMA0_LEN"] = p["src"][2]
        return R, T, skipped
    ifm, ofm = p["ifm"], p["ofm"]
    _fm_regs(R, T, "IFM", ifm, False)
    T.append(("IFM_DEPTH_M1", ifm["shape"][2] - 1, False))
    R["IFM_DEPTH_M1"] = u16(ifm["shape"][2] - 1)
    R["IFM_PRECISION"] = _ifm_precision(ifm)  # bits 8..9 (operand to scale) are judged with the scaling registers
    R["IFM_UPSCALE"] = UPSCALE[p["upscale"]]
    if p["pad"] is not None:
        for n, v in zip(("IFM_PAD_TOP", "IFM_PAD_LEFT", "IFM_PAD_BOTTOM", "IFM_PAD_RIGHT"), p["pad"]):
            T.append((n, v, False))
            R[n] = u16(v)
    _fm_regs(R, T, "OFM", ofm, True)
    bits, signed = DTYPES[ofm["dt"]]
    R["OFM_PRECISION"] = signed | ({8: 0, 16: 1, 32: 2}[bits] << 1) | ((1 << 6) if ofm["layout"] == "NHCWB16" else 0) | \
        ((1 << 8) if uses_global_scale(p) else 0) | (ROUNDING[p["rounding"]] << 14)
    if p["kind"] != "elementwise":
        kw, kh, sx, sy, dx, dy = p["kernel"]
        T.append(("KERNEL_HEIGHT_M1", dy * (kh - 1), False))
        T.append(("KERNEL_WIDTH_M1", dx * (kw - 1), False))
        R["KERNEL_HEIGHT_M1"], R["KERNEL_WIDTH_M1"] = u16(dy * (kh - 1)), u16(dx * (kw - 1))
        ks = ((sx - 1) & 1) | (((sy - 1) & 1) << 1) | (((sx - 1) >> 1) << 6) | (((sy - 1) >> 1) << 9) | ((dx - 1) << 3) | ((dy - 1) << 4)
        if p["traversal"] == "PART_KERNEL_FIRST":
            ks |= 4
        R["KERNEL_STRIDE"] = ks
    for what, ranges in (("WEIGHT", p["weights"]), ("SCALE", p["biases"])):
        if not ranges:
            continue
        R[what + "_REGION"] = ranges[0][0]
        for core in range(a["cores"]):
            sfx = "" if core == 0 else "1"
            if core < len(ranges):
                R["%s%s_BASE" % (what, sfx)] = ranges[core][1]
                R["%s%s_LENGTH" % (what, sfx)] = (ranges[core][2], 0)
            else:
                R["%s%s_LENGTH" % (what, sfx)] = (0, 0)  # core present but without its own stream: must see length 0
    act = p["act"] or dict(op="NONE_OR_RELU", min=None, max=None, lut=0)
    lo_t, hi_t = (-(1 << (bits - 1)), (1 << (bits - 1)) - 1) if signed else (0, (1 << bits) - 1)
    qmin = lo_t if act["min"] is None else _quantise(act["min"], ofm)
    qmax = hi_t if act["max"] is None else _quantise(act["max"], ofm)
    qmin = max(qmin, -32768, lo_t)
    qmax = min(qmax, 32767, hi_t)
    if act["op"] == "TABLE_LOOKUP":
        av = 16 + act["lut"]
        if ofm["dt"] == "INT32":
            av |= 3 << 12
            qmin, qmax = max(-128, qmin), min(127, qmax)
    else:
        av = ACTIVATION[act["op"]]
    R["ACTIVATION"], R["ACTIVATION_MIN"], R["ACTIVATION_MAX"] = av, u16(qmin), u16(qmax)
    bh, bw, bd = p["block"]
    R["OFM_BLK_HEIGHT_M1"], R["OFM_BLK_WIDTH_M1"], R["OFM_BLK_DEPTH_M1"] = bh - 1, bw - 1, bd - 1
    skipped.update(("IFM_IB_END", "AB_START", "ACC_FORMAT"))
    if has_ifm2_fm(p):
        skipped.add("IFM2_IB_START")
    # scaling
    if p["kind"] == "pool" and uses_global_scale(p):
        r = p.get("rescale")
        if isinstance(r, dict) and r.get("explicit"):
            R["OFM_SCALE"] = (r["mult"][0] & 0xFFFFFFFF, r["shift"][0] & 0xFFFF)
        else:
            skipped.add("OFM_SCALE")
    if p["kind"] == "elementwise":
        sub = p["sub"]
        r = p.get("rescale")
        if sub in ("ADD", "SUB", "MUL") and isinstance(r, list):
            R["OFM_SCALE"] = (r[0] & 0xFFFFFFFF, r[1] & 0xFFFF)
            if sub != "MUL":
                R["OPA_SCALE"], R["OPB_SCALE"] = (1, 0), (1, 0)
        elif sub in ("ADD", "SUB", "MUL") and (ifm["scale"] is None or (p["ifm2"] or {}).get("scale") is None or ofm["scale"] is None) and \
                not (p["act"] and p["act"]["op"] in ("TANH", "SIGMOID") and ifm["scale"] is not None and (p["ifm2"] or {}).get("scale") is not None):
            R["OFM_SCALE"] = (1, 0)
            if sub != "MUL":
                R["OPA_SCALE"], R["OPB_SCALE"] = (1, 0), (1, 0)
        elif sub in ("ADD", "SUB", "MUL", "LRELU", "ABS"):
            skipped.add("OFM_SCALE")
            if sub in ("ADD", "SUB"):
                skipped.update(("OPA_SCALE", "OPB_SCALE", "IFM_PRECISION.op_to_scale"))
        if sub not in UNARY:
            f2 = p["ifm2"]
            bc = (1 << 6) if p["reversed"] else 0
            if p["scalar"] is not None:
                bc |= 1 << 7
                zp2 = 0 if f2["zp"] is None else f2["zp"]
                R["IFM2_ZERO_POINT"] = u16(zp2)
                q = _quantise(p["scalar"], f2)
                T.append(("IFM2_SCALAR", q, q < 0))
                R["IFM2_SCALAR"] = u16(q)
            else:
                _fm_regs(R, T, "IFM2", f2, False)
                for i, d in enumerate((0, 1, 2)):
                    if ifm["shape"][d] != f2["shape"][d]:
                        bc |= 1 << i
            R["IFM2_PRECISION"] = _ifm_precision(f2)
            R["IFM2_BROADCAST"] = bc
    return R, T, skipped


def _aligned_fm(f, acc, out):
    es = DTYPES[f["dt"]][0] // 8
    need = 16 if f["layout"] == "NHCWB16" else es
    for i, addr in enumerate(f["tiles"]["addr"]):
        if addr % need:
            out.append("tile %d address %#x not %d-byte aligned" % (i, addr, need))
    sy, sx, sc = f["strides"] or default_strides(f)
    if f["layout"] == "NHCWB16":
        for n, s in (("C", sc), ("Y", sy)):
            if s % 16:
                out.append("stride %s %d not a multiple of 16" % (n, s))
    else:
        for n, s in (("Y", sy), ("X", sx)):
            if s % es:
                out.append("stride %s %d not a multiple of the element size" % (n, s))


def illegal(p, acc):
    a = isa.ACCELERATORS[acc]
    out = []
    if p["kind"] == "dma":
        internal = 0x103
        if a["product"] == 1:
            if p["src"][0] == internal and p["src"][1] % 16:
                out.append("internal DMA source unaligned")
            if p["dst"][0] == internal and (p["dst"][1] % 16 or p["src"][2] % 16):
                out.append("internal DMA destination/length unaligned")
        elif p["src"][1] % 16 or p["dst"][1] % 16 or p["src"][2] % 16:
            out.append("DMA address/length not 16-byte aligned")
        return out
    _aligned_fm(p["ifm"], acc, out)
    _aligned_fm(p["ofm"], acc, out)
    if has_ifm2_fm(p):
        _aligned_fm(p["ifm2"], acc, out)
    for w in p["weights"]:
        if w[1] % 16 or w[2] % 16:
            out.append("weight range %#x+%d not 16-byte aligned" % (w[1], w[2]))
    for b in p["biases"]:
        if b[2] % 16:
            out.append("scale length %d not a multiple of 16" % b[2])
    return out


def alignment_problems(kind, regs_get, ncores):
    """hardware alignment rules read back from a decoded register image (independent of what was asked for)"""
    out = []
    if kind == "dma":
        return out
    fms = ["IFM", "OFM"]
    if kind == "elementwise" and not (regs_get("IFM2_BROADCAST") & 0x80) and regs_get("__binary__"):
        fms.append("IFM2")
    for pfx in fms:
        prec = regs_get(pfx + "_PRECISION")
        b16 = bool(prec & (1 << 6))
        es = 1 << (((prec >> 1) & 3) if pfx == "OFM" else ((prec >> 2) & 3))
        need = 16 if b16 else es
        for i in range(4):
            if regs_get("%s_BASE%d" % (pfx, i)) % need:
                out.append("%s_BASE%d %#x not %d-byte aligned" % (pfx, i, regs_get("%s_BASE%d" % (pfx, i)), need))
        names = ("STRIDE_C", "STRIDE_Y") if b16 else ("STRIDE_Y", "STRIDE_X")
        for n in names:
            if regs_get("%s_%s" % (pfx, n)) % need:
                out.append("%s_%s %d not a multiple of %d" % (pfx, n, regs_get("%s_%s" % (pfx, n)), need))
    if kind in ("conv", "depthwise"):
        for sfx in ("", "1")[:ncores]:
            ln = regs_get("WEIGHT%s_LENGTH" % sfx)
            ln = ln[0] if isinstance(ln, tuple) else ln
            if ln % 16:
                out.append("WEIGHT%s_LENGTH %d not a multiple of 16" % (sfx, ln))
            if ln and regs_get("WEIGHT%s_BASE" % sfx) % 16:
                out.append("WEIGHT%s_BASE not 16-byte aligned" % sfx)
            sl = regs_get("SCALE%s_LENGTH" % sfx)
            sl = sl[0] if isinstance(sl, tuple) else sl
            if sl % 16:
                out.append("SCALE%s_LENGTH %d not a multiple of 16" % (sfx, sl))
    return out
