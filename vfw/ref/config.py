"""Configuration resolution model written from OPTIONS.md (DESIGN.md A5).  No Vela imports."""

MEM_AREAS = ["Sram", "Dram", "OnChipFlash", "OffChipFlash"]
PORTS = ["Axi0", "Axi1"]


class ConfigError(Exception):
    pass


def lookup(sections, section, key, seen=None):
    """R1/R2: own value, else the inherited one (transitively); self-inheritance is an error; missing parent is an error."""
    if section not in sections:
        raise ConfigError("section %s not found" % section)
    sec = sections[section]
    if key in sec:
        own = sec[key]
    else:
        own = None
    inherited = None
    if "inherit" in sec:
        parent = sec["inherit"]
        if parent == section:
            raise ConfigError("self inheritance")
        inherited = lookup(sections, parent, key)
    return own if own is not None else inherited


def resolve(sections, acc, system_config, memory_mode, cli_arena, default_sys=None, default_mem=None):
    """sections: {full section name: {option: string}}.  Returns dict of resolved parameters or raises ConfigError."""
    is_u65 = "u65" in acc
    max_off = (1 << 40) if is_u65 else (1 << 32)
    r = dict(core_clock=1.0, axi0_port="Sram", axi1_port="Sram", const_mem_area="Axi0", arena_mem_area="Axi0", cache_mem_area="Axi0",
             arena_cache_size=max_off, arena_cache_size_from="Default")
    clock = {m: 1.0 for m in MEM_AREAS}
    burst = {m: 1 for m in MEM_AREAS}
    rlat = {m: 0 for m in MEM_AREAS}
    wlat = {m: 0 for m in MEM_AREAS}
    ssec = "System_Config." + system_config
    if ssec in sections:
        def g(key):
            return lookup(sections, ssec, key)
        v = g("core_clock")
        if v is not None:
            r["core_clock"] = float(v)
        for p in ("axi0_port", "axi1_port"):
            v = g(p)
            if v is not None:
                if v not in MEM_AREAS:
                    raise ConfigError("unknown memory area %s" % v)
                r[p] = v
        for mem in (r["axi0_port"], r["axi1_port"]):  # R4: only the memories selected by the two ports
            for table, suffix, conv in ((clock, "_clock_scale", float), (burst, "_burst_length", int), (rlat, "_read_latency", int), (wlat, "_write_latency", int)):
                v = g(mem + suffix)
                if v is not None:
                    try:
                        table[mem] = conv(v)
                    except ValueError:
                        raise ConfigError("bad number %s" % v)
    elif system_config == "internal-default":
        if default_sys is None:
            raise ConfigError("model does not define internal defaults")
        default_sys(r, clock, burst, rlat, wlat)
    else:
        raise ConfigError("system config %s not found" % system_config)
    msec = "Memory_Mode." + memory_mode
    if msec in sections:
        for k in ("const_mem_area", "arena_mem_area", "cache_mem_area"):
            v = lookup(sections, msec, k)
            if v is not None:
                if v not in PORTS:
                    raise ConfigError("unknown port %s" % v)
                r[k] = v
        v = lookup(sections, msec, "arena_cache_size")
        if v is not None:
            try:
                r["arena_cache_size"] = int(v)
            except ValueError:
                raise ConfigError("bad size %s" % v)
            r["arena_cache_size_from"] = "Configuration file"
    elif memory_mode == "internal-default":
        if default_mem is None:
            raise ConfigError("model does not define internal defaults")
        default_mem(r)
    else:
        raise ConfigError("memory mode %s not found" % memory_mode)

    def port(area):
        return r["axi0_port"] if r[area] == "Axi0" else r["axi1_port"]

    # documented rewrite: all three areas on one port that is Sram -> constants move to the other port as OnChipFlash
    if port("const_mem_area") == "Sram" and r["const_mem_area"] == r["arena_mem_area"] == r["cache_mem_area"]:
        if r["const_mem_area"] == "Axi0":
            r["const_mem_area"] = "Axi1"
            r["axi1_port"] = "OnChipFlash"
        else:
            r["const_mem_area"] = "Axi0"
            r["axi0_port"] = "OnChipFlash"
        clock["OnChipFlash"], burst["OnChipFlash"], rlat["OnChipFlash"], wlat["OnChipFlash"] = clock["Sram"], burst["Sram"], rlat["Sram"], wlat["Sram"]
    if cli_arena is not None:  # R5
        r["arena_cache_size"] = cli_arena
        r["arena_cache_size_from"] = "CLI option"
    # R6
    if port("const_mem_area") not in ("Dram", "OnChipFlash", "OffChipFlash"):
        raise ConfigError("const_mem_area maps to %s" % port("const_mem_area"))
    if port("arena_mem_area") not in ("Sram", "Dram"):
        raise ConfigError("arena_mem_area maps to %s" % port("arena_mem_area"))
    if port("cache_mem_area") != "Sram":
        raise ConfigError("cache_mem_area maps to %s" % port("cache_mem_area"))
    if not (0 <= r["arena_cache_size"] <= max_off):
        raise ConfigError("arena_cache_size out of range")
    r["clock"], r["burst"], r["rlat"], r["wlat"] = clock, burst, rlat, wlat
    return r


# internal-default sections, as OPTIONS.md documents them ("maps to the following configs from the example vela.ini file"):
# Ethos-U65: system Ethos_U65_Client_Server, memory mode Dedicated_Sram; Ethos-U55: system Ethos_U55_High_End_Embedded, memory mode Shared_Sram
def documented_default_sys(acc):
    def f(r, clock, burst, rlat, wlat):
        if "u65" in acc:
            r["core_clock"], r["axi0_port"], r["axi1_port"] = 1e9, "Sram", "Dram"
            clock["Sram"], burst["Sram"], rlat["Sram"], wlat["Sram"] = 1.0, 32, 32, 32
            clock["Dram"], burst["Dram"], rlat["Dram"], wlat["Dram"] = 0.75, 128, 500, 250
        else:
            r["core_clock"], r["axi0_port"], r["axi1_port"] = 500e6, "Sram", "OffChipFlash"
            clock["Sram"], burst["Sram"], rlat["Sram"], wlat["Sram"] = 1.0, 32, 32, 32
            clock["OffChipFlash"], burst["OffChipFlash"], rlat["OffChipFlash"], wlat["OffChipFlash"] = 0.125, 128, 64, 64
    return f


def documented_default_mem(acc):
    def f(r):
        if "u65" in acc:
            r["const_mem_area"], r["arena_mem_area"], r["cache_mem_area"] = "Axi1", "Axi1", "Axi0"
            r["arena_cache_size"] = 393216
        else:
            r["const_mem_area"], r["arena_mem_area"], r["cache_mem_area"] = "Axi1", "Axi0", "Axi0"
    return f
