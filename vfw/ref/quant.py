"""Fixed-point reference (DESIGN.md A7): gemmlowp / TFLite definitions on unbounded Python ints, explicit saturation.
Nothing here imports Vela."""
import math

I32_MIN, I32_MAX = -(1 << 31), (1 << 31) - 1
I16_MIN, I16_MAX = -(1 << 15), (1 << 15) - 1


def _tdiv(a, b):
    """C truncating division"""
    q = abs(a) // abs(b)
    return q if (a >= 0) == (b >= 0) else -q


def srdhm(a, b):
    """SaturatingRoundingDoublingHighMul (int32)"""
    if a == b == I32_MIN:
        return I32_MAX
    ab = a * b
    nudge = (1 << 30) if ab >= 0 else 1 - (1 << 30)
    return _tdiv(ab + nudge, 1 << 31)


def srdhm16(a, b):
    if a == b == I16_MIN:
        return I16_MAX
    ab = a * b
    nudge = (1 << 14) if ab >= 0 else 1 - (1 << 14)
    return _tdiv(ab + nudge, 1 << 15)


def sat_mul16(a, b):
    """SaturatingDoublingHighMul without rounding (TFLite hard-swish helper): truncating"""
    if a == b == I16_MIN:
        return I16_MAX
    return _tdiv(a * b, 1 << 15)


def rdbp(x, exponent):
    """RoundingDivideByPOT"""
    mask = (1 << exponent) - 1
    remainder = x & mask
    threshold = (mask >> 1) + (1 if x < 0 else 0)
    return (x >> exponent) + (1 if remainder > threshold else 0)


def downscale32to16(a):
    """DownScaleInt32ToInt16Multiplier"""
    if a >= I32_MAX - (1 << 15):
        return I16_MAX
    return (a + (1 << 15)) >> 16


def sat32(x):
    return max(I32_MIN, min(I32_MAX, x))


def quantize_multiplier(d):
    """TFLite QuantizeMultiplier(double) -> (quantized_multiplier, shift) with value = m * 2^(shift-31)"""
    if d == 0:
        return 0, 0
    q, e = math.frexp(d)
    m = int(math.floor(abs(q) * (1 << 31) + 0.5))
    if m == 1 << 31:
        m //= 2
        e += 1
    if e < -31:
        return 0, 0
    return (m if d > 0 else -m), e  # TfLiteRound is symmetric: a negative real multiplier gives the negated significand


def mbqm(x, m, shift):
    """MultiplyByQuantizedMultiplier(x, m, shift) (shift = exponent, positive = left)"""
    left = shift if shift > 0 else 0
    right = -shift if shift < 0 else 0
    return rdbp(srdhm(sat32(x * (1 << left)), m), right)


def mbqm_vela(x, scale, vela_shift):
    """same, with Vela's convention value = scale * 2^-vela_shift"""
    return mbqm(x, scale, 31 - vela_shift)


def exp_on_interval(a):
    """exp_on_interval_between_negative_one_quarter_and_0_excl, Q0.31"""
    constant_term = 1895147668
    constant_1_over_3 = 715827883
    x = a + (1 << 28)
    x2 = srdhm(x, x)
    x3 = srdhm(x2, x)
    x4 = srdhm(x2, x2)
    x4_over_4 = rdbp(x4, 2)
    t = rdbp(srdhm(x4_over_4 + x3, constant_1_over_3) + x2, 1)
    return constant_term + srdhm(constant_term, x + t)


def exp_on_negative_values(a):
    """gemmlowp exp_on_negative_values for Q5.26 input, Q0.31 result"""
    if a == 0:
        return I32_MAX
    one_quarter = 1 << 24
    mask = one_quarter - 1
    a_mod = (a & mask) - one_quarter
    # Rescale<0>: multiply by 2^5 with saturation
    threshold = (1 << (31 - 5)) - 1
    if a_mod > threshold:
        r = I32_MAX
    elif a_mod < -threshold:
        r = I32_MIN
    else:
        r = a_mod << 5
    result = exp_on_interval(r)
    remainder = a_mod - a
    for exponent, mult in ((-2, 1672461947), (-1, 1302514674), (0, 790015084), (1, 290630308), (2, 39332535), (3, 720401), (4, 242)):
        shift = 26 + exponent
        if remainder & (1 << shift):
            result = srdhm(result, mult)
    return result


def leaky_relu_ref(x, zp_in, zp_out, s_in, s_out, alpha):
    """TFLite int8/uint8 LeakyRelu reference (QuantizeLeakyRelu)"""
    v = x - zp_in
    if v >= 0:
        m, e = quantize_multiplier(s_in / s_out)
    else:
        m, e = quantize_multiplier(s_in * alpha / s_out)
    return zp_out + mbqm(v, m, e)


def hard_swish_ref(x, zp_in, zp_out, s_in, s_out):
    """TFLite quantised HardSwish reference kernel (16-bit fixed point)"""
    hires_in = (1.0 / 128.0) * s_in
    reluish_scale = 3.0 / 32768.0
    out_mult = hires_in / s_out
    om, oe = quantize_multiplier(out_mult)
    om16 = downscale32to16(om)
    rm, re_ = quantize_multiplier(hires_in / reluish_scale)
    rm16 = downscale32to16(rm)
    v = x - zp_in
    hires = v * 128
    preshift = srdhm16(hires, om16)
    reluish = hires
    if re_ > 0:
        reluish = max(I16_MIN, min(I16_MAX, reluish * (1 << (re_ - 1))))
    reluish = srdhm16(reluish, rm16)
    if re_ > 0:
        reluish = max(I16_MIN, min(I16_MAX, reluish * 2))
    if re_ < 0:
        reluish = rdbp(reluish, -re_)
    reluish = (reluish + (1 << 15)) >> 1
    pre = sat_mul16(reluish, preshift)
    out = rdbp(pre, -oe) if oe < 0 else pre * (1 << oe)
    return out + zp_out
