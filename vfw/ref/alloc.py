"""Brute-force allocation oracle (does not call any Vela code)."""


def _ru(a, b):
    return -(-a // b) * b


def has_live_overlap(specs):
    for i in range(len(specs)):
        for j in range(i):
            if specs[i][0] <= specs[j][1] and specs[j][0] <= specs[i][1]:
                return True
    return False


def peak_live(specs):
    T = 1 + max(e for _, e, _, _ in specs)
    return max(sum(sz for s, e, sz, _ in specs if s <= t <= e) for t in range(T))


def check_allocation(specs, addrs, total, dups=(), ignore_liveness=False):
    """specs: [(start,end,size,align)], addrs: [[address of every tensor of range i]], total: reported size.
    Returns list of tags."""
    tags = []
    hi = 0
    dupset = {frozenset(p) for p in dups}
    for i, (s, e, sz, al) in enumerate(specs):
        ai = addrs[i]
        if any(a is None for a in ai):
            tags.append("unallocated")
            continue
        if len(set(ai)) != 1:
            tags.append("equivalent_tensors_differ")
        a = ai[0]
        if a < 0:
            tags.append("negative")
        if a % al:
            tags.append("align")
        hi = max(hi, a + sz)
        for j in range(i):
            s2, e2, sz2, _ = specs[j]
            if any(x is None for x in addrs[j]):
                continue
            a2 = addrs[j][0]
            live = ignore_liveness or (s <= e2 and s2 <= e)
            if live and a < a2 + sz2 and a2 < a + sz:
                if frozenset((i, j)) in dupset and a == a2 and sz == sz2:
                    continue
                tags.append("overlap")
    maxal = max(al for *_, al in specs)
    if total < hi:
        tags.append("total_low")
    elif total > _ru(hi, maxal):
        tags.append("total_high")
    return tags
