"""Forced schedules (DESIGN.md C03/C10): every final stripe height through the REAL proposal functions
(propose_schedule_striping, CascadeBuilder.build_cascades, propose_schedule_buffering) with only the cost comparison of
the search bypassed, so that every cascadable chain is cascaded at every stripe height.  Everything downstream
(apply_schedule, fast storage, live ranges, allocation, command generation, serialisation) is the unmodified pipeline."""

BIG = 1 << 41


def install(stripe_height):
    from ethosu.vela import cascade_builder, scheduler

    def forced_optimize(self, schedule, max_sched, max_template):
        ofm_h = self.sched_ops[-1].ofm.shape.height
        h = max(1, min(stripe_height, ofm_h))
        final = self.sched_ops[-1].ofm.shape.with_height(h)
        proposed = self.propose_schedule_striping(final, "FORCED_%d" % h, schedule)
        builder = cascade_builder.CascadeBuilder(self.sched_ops, self.arch.is_spilling_enabled(), {op: 0 for op in self.sched_ops})
        limit = (1 << 40) if self.arch.is_spilling_enabled() else 0
        builder.build_cascades(proposed, max_template, limit)
        self.sg.schedule = proposed
        self.update_op_memory_snapshot(proposed)
        opt = self.propose_schedule_buffering(proposed, self.sram_limit)
        opt.cascades = proposed.cascades
        return opt

    scheduler.Scheduler.optimize_schedule = forced_optimize
    cascade_builder.CascadeBuilder._estimate_sram_usage = lambda self, sched_op, cost: BIG
    # the weight-buffer re-optimisation re-runs the real optimiser on the min schedule: keep the forced schedule instead
    scheduler.Scheduler.optimize_weight_buffering_size = lambda self, min_schedule: None


CHAIN_OPS = ["conv3x3", "conv3x3s2", "conv5x5_c24", "conv3x3d2", "conv2x2v", "conv3x3v_relu6", "dw3x3", "dw3x3s2", "dw5x5v", "maxpool2x2",
             "avgpool3x3same", "maxpool3x3s1same", "add_const", "leaky_relu"]
LUT_OPS = ("leaky_relu", "logistic", "tanh", "hard_swish")
FORCED_CFGS = [dict(acc="ethos-u55-128", mem="Shared_Sram"), dict(acc="ethos-u65-256")]


def forced_cases(tier):
    """(chain history, configuration, final stripe height)"""
    import itertools

    from .tfl import nets

    start = ([1, 16, 16, 8], "int8")
    cases = []
    depths = [(2, CHAIN_OPS)] if tier == "quick" else [(2, CHAIN_OPS), (3, CHAIN_OPS[:10])]
    extra3 = [["pad_hw", "conv2x2v", "conv3x3"], ["pad_hw_asym", "conv2x2v", "dw3x3"], ["conv3x3", "dw3x3", "conv1x1"], ["conv3x3s2", "conv3x3", "maxpool2x2"],
              ["resize_nn2", "conv3x3", "dw3x3"], ["conv3x3", "add_const", "conv3x3"], ["conv3x3", "resize_nn2", "conv3x3"],
              # anisotropic dilation (the height and the width dilation must not be confused), with bottom padding, striped
              ["conv3x3d2x1"], ["conv3x3d1x2"], ["dw3x3d2x1"], ["conv3x3", "conv3x3d2x1"], ["conv3x3d1x2", "conv3x3"], ["conv3x3d2x1", "conv3x3d1x2"],
              ["conv1x1", "dw3x3d2x1", "conv1x1"],
              # nearest-upscaling operators with a kernel (bilinear resize; align_corners variants) striped inside a cascade: odd bottom skirt
              ["conv3x3", "resize_bl2", "conv3x3"], ["resize_bl2", "conv3x3"], ["conv1x1", "resize_bl2"], ["conv3x3", "resize_bl2_ac", "conv3x3"],
              ["conv3x3", "resize_nn2_ac", "conv3x3"], ["resize_bl2", "dw3x3"],
              # kernels that are taller than wide / wider than tall inside a cascade (the rolling buffer height follows the kernel HEIGHT)
              ["conv3x3", "convg.k3x1.s1x1.S.c8"], ["convg.k3x1.s1x1.S.c8", "convg.k5x1.s1x1.S.c8"], ["convg.k5x2.s1x1.V.c8", "conv3x3"],
              ["conv1x1", "convg.k7x3.s2x2.S.c8"], ["convg.k1x5.s1x1.S.c8", "convg.k1x3.s1x1.S.c8"], ["conv3x3", "dwg.k5x1.s1x1.S"], ["conv3x3", "maxg.k4x1.s1x1.S"],
              # two different tables inside one cascade
              ["conv3x3", "leaky_relu", "conv3x3"], ["leaky_relu", "conv3x3", "logistic"], ["logistic", "conv1x1", "tanh"]]
    hists = []
    for d, sigma in depths:
        for steps in itertools.product(sigma, repeat=d):
            hists.append(list(steps))
    hists += extra3
    for steps in hists:
        h = dict(start=start, steps=steps)
        m = nets.build(h, 0)
        if m is None:
            continue
        out_t = m["subgraphs"][0]["tensors"][m["subgraphs"][0]["outputs"][0]]
        oh = out_t["shape"][1] if len(out_t["shape"]) == 4 else 1
        heights = [x for x in range(1, max(oh // 2, 1) + 1)]
        if tier == "quick":
            heights = [x for x in heights if x <= 5]
        cfgs = list(FORCED_CFGS)
        if any(x in LUT_OPS for x in steps):
            # parts without reserved table banks: every interleaved stripe of another operator destroys the table
            cfgs.append(dict(acc="ethos-u55-64", mem="Shared_Sram"))
        for cfg in cfgs:
            for sh in heights:
                cases.append(dict(h=h, cfg=cfg, forced=sh, level="forced"))
    return cases
