"""Run the real compiler (vela.main / convert / convert_bytes) on a model and return a compile record.

Executed inside a forked child (isolate.run_forked) so that no process-global state of Vela survives."""
import csv
import io
import os
import shutil
import tempfile

from . import core

ARM_INI = os.path.join(core.REPO, "ethosu", "config_files", "Arm", "vela.ini")

ACCS = ["ethos-u65-256", "ethos-u55-128", "ethos-u65-512", "ethos-u55-256", "ethos-u55-64", "ethos-u55-32"]
SYS_FOR = {"u55": "Ethos_U55_High_End_Embedded", "u65": "Ethos_U65_High_End"}


def config_args(cfg):
    """cfg = dict(acc, mem (default|Sram_Only|Shared_Sram|Dedicated_Sram), opt (Performance|Size), arena (None|int),
    alloc (HillClimb|Greedy|LinearAlloc), align (16..))."""
    a = ["--accelerator-config", cfg.get("acc", "ethos-u65-256")]
    mem = cfg.get("mem", "default")
    if mem != "default":
        fam = "u65" if "u65" in cfg.get("acc", "ethos-u65-256") else "u55"
        a += ["--config", cfg.get("ini", ARM_INI), "--system-config", SYS_FOR[fam], "--memory-mode", mem]
    if cfg.get("opt"):
        a += ["--optimise", cfg["opt"]]
    if cfg.get("arena") is not None:
        a += ["--arena-cache-size", str(cfg["arena"])]
    if cfg.get("alloc"):
        a += ["--tensor-allocator", cfg["alloc"]]
    if cfg.get("align"):
        a += ["--cpu-tensor-alignment", str(cfg["align"])]
    a += cfg.get("extra", [])
    return a


def cfg_key(cfg):
    k = "%s/%s/%s/%s/%s/%s" % (cfg.get("acc", "ethos-u65-256"), cfg.get("mem", "default"), cfg.get("opt", "Performance"),
                               cfg.get("arena"), cfg.get("alloc", "HillClimb"), cfg.get("align", 16))
    if cfg.get("extra"):
        k += "/" + " ".join(cfg["extra"])
    return k


# configuration lattice ------------------------------------------------------------------------
def lattice(name):
    mems = ["default", "Sram_Only", "Shared_Sram", "Dedicated_Sram"]
    opts = ["Performance", "Size"]
    arenas = [None, 4096, 16384, 65536]
    allocs = ["HillClimb", "Greedy", "LinearAlloc"]
    aligns = [16, 64, 256]
    if name == "full":
        return [dict(acc=a, mem=m, opt=o, arena=ar, alloc=al, align=ag) for a in ACCS for m in mems for o in opts for ar in arenas for al in allocs for ag in aligns
                if not (m == "Dedicated_Sram" and "u55" in a)]
    if name == "c24":
        # every value of every axis occurs with every accelerator (4 rows per accelerator, latin-square style)
        out = []
        for ai, a in enumerate(ACCS):
            for r in range(4):
                m_ = mems[(r + ai) % 4]
                if m_ == "Dedicated_Sram" and "u55" in a:
                    m_ = "Shared_Sram"  # Dedicated_Sram needs a DRAM port: Ethos-U65 only
                out.append(dict(acc=a, mem=m_, opt=opts[(r + ai) % 2], arena=arenas[(r + 2 * ai + 1) % 4],
                                alloc=allocs[(r + ai) % 3], align=aligns[(r + ai) % 3]))
        return out
    if name == "c8":
        rows = [("ethos-u65-256", "default", "Performance", None, "HillClimb", 16),
                ("ethos-u55-128", "Shared_Sram", "Size", None, "Greedy", 64),
                ("ethos-u65-512", "Dedicated_Sram", "Performance", 16384, "LinearAlloc", 16),
                ("ethos-u55-256", "Sram_Only", "Performance", 4096, "HillClimb", 256),
                ("ethos-u55-64", "Sram_Only", "Size", 65536, "Greedy", 16),
                ("ethos-u55-32", "Shared_Sram", "Performance", 4096, "LinearAlloc", 64),
                ("ethos-u65-256", "Sram_Only", "Size", None, "Greedy", 16),
                ("ethos-u65-512", "default", "Performance", 4096, "HillClimb", 64)]
        return [dict(acc=a, mem=m, opt=o, arena=ar, alloc=al, align=ag) for a, m, o, ar, al, ag in rows]
    if name == "cP":
        # Performance strategy with a fast-storage limit below the un-striped peak: the real optimiser proposes several stripings
        rows = [("ethos-u55-128", "Shared_Sram", "Performance", 30000, "HillClimb", 16),
                ("ethos-u55-256", "Sram_Only", "Performance", 20000, "Greedy", 16),
                ("ethos-u65-256", "default", "Performance", 16384, "HillClimb", 16),
                ("ethos-u65-512", "Dedicated_Sram", "Performance", 24000, "HillClimb", 16)]
        return [dict(acc=a, mem=m, opt=o, arena=ar, alloc=al, align=ag) for a, m, o, ar, al, ag in rows]
    if name == "cR":
        # arena-size ladder under the real optimiser: the largest stripe height that fits varies (odd and even values occur)
        return [dict(acc=a, mem="default", opt="Performance", arena=ar, alloc="HillClimb", align=16)
                for a in ("ethos-u55-128", "ethos-u65-256") for ar in range(20000, 140001, 6000)]
    if name == "cW":
        # weights far larger than the fast storage: one minimum depth slice of the encoded weights does not fit the buffer
        rows = [("ethos-u55-128", "Shared_Sram", "Performance", 32768, "HillClimb", 16),
                ("ethos-u55-128", "default", "Performance", 16384, "HillClimb", 16),
                ("ethos-u55-64", "Shared_Sram", "Performance", 98304, "Greedy", 16),
                ("ethos-u65-512", "Dedicated_Sram", "Performance", 32768, "HillClimb", 16),
                ("ethos-u65-256", "default", "Size", 32768, "HillClimb", 16)]
        return [dict(acc=a, mem=m, opt=o, arena=ar, alloc=al, align=ag) for a, m, o, ar, al, ag in rows]
    if name == "cZ":
        # boundary values of --arena-cache-size: zero (nothing may be placed in the cache) and one byte
        rows = [("ethos-u65-256", "default", "Performance", 0, "HillClimb", 16),
                ("ethos-u65-512", "Dedicated_Sram", "Size", 0, "Greedy", 16),
                ("ethos-u65-256", "Dedicated_Sram", "Performance", 1, "HillClimb", 64),
                ("ethos-u55-128", "Shared_Sram", "Performance", 0, "HillClimb", 16)]
        return [dict(acc=a, mem=m, opt=o, arena=ar, alloc=al, align=ag) for a, m, o, ar, al, ag in rows]
    if name == "cO":
        # rarely combined command-line options on two accelerators (every option changes which code runs, none changes what the network computes
        # for the operators of the `options` level)
        extras = [["--force-symmetric-int-weights"], ["--enable-debug-db"], ["--max-block-dependency", "0"], ["--max-block-dependency", "1"],
                  ["--show-subgraph-io-summary", "--verbose-config", "--verbose-progress"], ["--hillclimb-max-iterations", "1"], ["--recursion-limit", "2000"],
                  ["--verbose-allocation", "--verbose-high-level-command-stream", "--verbose-register-command-stream", "--verbose-operators"],
                  ["--verbose-graph", "--verbose-quantization", "--verbose-packing", "--verbose-tensor-purpose", "--verbose-tensor-format", "--verbose-schedule", "--verbose-weights"],
                  ["--timing", "--verbose-performance", "--show-cpu-operations"]]
        out = []
        for i, ex in enumerate(extras):
            a, m, o, ar, al, ag = [("ethos-u55-128", "Shared_Sram", "Performance", None, "HillClimb", 16), ("ethos-u65-512", "default", "Size", None, "Greedy", 64)][i % 2]
            out.append(dict(acc=a, mem=m, opt=o, arena=ar, alloc=al, align=ag, extra=ex))
        return out
    if name == "c4":
        return lattice("c8")[:4]
    if name == "c2":
        return lattice("c8")[:2]
    if name == "c1":
        return lattice("c8")[:1]
    raise ValueError(name)


# side-band capture ----------------------------------------------------------------------------
def describe_tensor(t):
    """plain (picklable) description of a Vela tensor, for naming things only"""
    if t is None:
        return None
    try:
        addr = t.address
    except Exception:
        addr = None
    names = [t.name]
    st = getattr(t, "src_tensor", None)
    guard = 0
    while st is not None and guard < 5:
        names.append(st.name)
        st = getattr(st, "src_tensor", None)
        guard += 1
    return dict(eq=str(t.equivalence_id), name=t.name, names=names, address=None if addr is None else int(addr), fmt=t.format.name,
                sub=t.sub_purpose.name, purpose=t.purpose.name, mem_type=t.mem_type.name, shape=[int(x) for x in (t.shape or [])],
                storage_shape=[int(x) for x in (t.storage_shape or [])], esize=t.element_size(), storage_size=int(t.storage_size()))


def _box(b):
    if b is None:
        return None
    return dict(start=[int(x) for x in b.start_coord], end=[int(x) for x in b.end_coord])


def describe_commands(sg, arch):
    """the high-level commands of an NPU subgraph in the order they become NpuOperations (NOPs kept, flagged)"""
    from ethosu.vela.high_level_command_stream import DMA, NOP, NpuStripe
    from ethosu.vela.numeric_util import round_up
    from ethosu.vela.operation import NpuBlockType
    from ethosu.vela.tensor import TensorPurpose

    out = []
    for cmd in sg.high_level_command_stream:
        if isinstance(cmd, NOP):
            out.append(dict(kind="nop", src=describe_tensor(cmd.in_tensor), dst=describe_tensor(cmd.out_tensor)))
        elif isinstance(cmd, DMA):
            out.append(dict(kind="dma", src=describe_tensor(cmd.in_tensor), dst=describe_tensor(cmd.out_tensor), box=_box(cmd.box),
                            weights=cmd.in_tensor.purpose == TensorPurpose.Weights, lut=cmd.out_tensor.purpose == TensorPurpose.LUT))
        elif isinstance(cmd, NpuStripe):
            if cmd.ps.npu_block_type == NpuBlockType.Default:
                continue
            ps = cmd.ps
            d = dict(kind="stripe", op=ps.primary_op.type.name, name=ps.primary_op.name,
                     ifm=describe_tensor(cmd.ifm_tensor), ifm_box=_box(cmd.ifm_box), ifm_view=[int(x) for x in ps.ifm_shapes[0].as_list()],
                     ofm=describe_tensor(cmd.ofm_tensor), ofm_box=_box(cmd.ofm_box), ofm_view=[int(x) for x in ps.ofm_shapes[0].as_list()],
                     ifm2=None, pad_top=int(cmd.pad_top), pad_bottom=int(cmd.pad_bottom), first=bool(cmd.is_first_h_stripe), last=bool(cmd.is_last_h_stripe))
            if cmd.ifm2_tensor is not None and cmd.ifm2_box is not None:
                d["ifm2"] = describe_tensor(cmd.ifm2_tensor)
                d["ifm2_box"] = _box(cmd.ifm2_box)
                d["ifm2_view"] = [int(x) for x in ps.ifm_shapes[1].as_list()] if len(ps.ifm_shapes) > 1 else None
            k = ps.primary_op.kernel
            d["kernel"] = dict(h=int(k.height), w=int(k.width), sx=int(k.stride.x), sy=int(k.stride.y), dx=int(k.dilation.x), dy=int(k.dilation.y))
            pad = ps.primary_op.attrs.get("explicit_padding") if hasattr(ps.primary_op, "attrs") else None
            d["explicit_padding"] = [int(x) for x in pad] if pad is not None else None
            d["padding_type"] = str(ps.primary_op.attrs.get("padding")) if "padding" in ps.primary_op.attrs else None
            d["upscale"] = str(ps.primary_op.ifm_resampling_mode)
            d["read_offsets"] = [None if o is None else [int(x) for x in o.as_list()] for o in ps.primary_op.read_offsets]
            d["write_offset"] = None if ps.primary_op.write_offset is None else [int(x) for x in ps.primary_op.write_offset.as_list()]
            d["write_shape"] = None if ps.primary_op.write_shape is None else [int(x) for x in ps.primary_op.write_shape.as_list()]
            d["read_shapes"] = [None if o is None else [int(x) for x in o.as_list()] for o in ps.primary_op.read_shapes]
            d["block_type"] = ps.npu_block_type.name
            d["ps"] = id(ps)
            if cmd.weight_tensor is not None:
                wt = cmd.weight_tensor
                src = wt.src_tensor if wt.src_tensor is not None else wt
                exp_w, exp_s = [], []
                from ethosu.vela.weight_compressor import WeightKey

                for core in range(arch.ncores):
                    key = WeightKey(core, cmd.weight_box.start_coord[-1])
                    if key in src.encoded_ranges:
                        r = src.encoded_ranges[key]
                        base = int(src.address + r.offset)
                        exp_w.append((base + int(r.weight_offset), int(round_up(int(r.weight_bytes), 16))))
                        if cmd.scale_tensor is not None:
                            sr = cmd.scale_tensor.encoded_ranges[key]
                            exp_s.append((int(cmd.scale_tensor.address + sr.offset), int(round_up(int(sr.scale_bytes), 16))))
                        else:
                            exp_s.append((base, int(round_up(int(r.scale_bytes), 16))))
                d["weights"] = dict(flash=exp_w, scales=exp_s, buffered=wt.src_tensor is not None, depth=[int(cmd.weight_box.start_coord[-1]), int(cmd.weight_box.end_coord[-1])],
                                    tensor=describe_tensor(wt))
            lut = ps.primary_op.activation_lut
            if lut is not None:
                d["lut"] = dict(flash=int(lut.address) if lut.address is not None else None, size=int(lut.storage_size()), shram=describe_tensor(ps.lut_tensor))
            out.append(d)
    return out


class SideBand:
    def __init__(self):
        self.streams = []  # per generate_command_stream call: dict(npu_ops=[...], accelerator, mem_limits)
        self.subgraphs = []  # per NPU subgraph: plain description of its high-level commands (names, boxes, addresses)
        self.installed = False

    def install(self):
        from ethosu.vela import high_level_command_to_npu_op as h2n
        from ethosu.vela import register_command_stream_generator as rcsg

        orig = rcsg.generate_command_stream
        sb = self

        def wrapped(npu_op_list, arch, verbose, mem_limits, add_to_debug_db=None, npu_op_to_cmd=None):
            res = orig(npu_op_list, arch, verbose, mem_limits, add_to_debug_db, npu_op_to_cmd)
            sb.streams.append(dict(npu_ops=list(npu_op_list), mem_limits=dict(mem_limits), words=list(res), acc=arch.accelerator_config.value))
            return res

        rcsg.generate_command_stream = wrapped
        if hasattr(h2n, "generate_command_stream"):
            h2n.generate_command_stream = wrapped
        orig_sg = h2n.generate_register_command_stream_for_sg

        def wrapped_sg(nng, sg, arch, verbose=False):
            cmds = describe_commands(sg, arch)
            res = orig_sg(nng, sg, arch, verbose)
            sb.subgraphs.append(dict(words=list(sg.register_command_stream), cmds=cmds, name=sg.name,
                                     inputs=[describe_tensor(t) for t in sg.input_tensors], outputs=[describe_tensor(t) for t in sg.output_tensors]))
            return res

        h2n.generate_register_command_stream_for_sg = wrapped_sg
        from ethosu.vela import compiler_driver as cd

        if hasattr(cd.high_level_command_to_npu_op, "generate_register_command_stream_for_sg"):
            cd.high_level_command_to_npu_op.generate_register_command_stream_for_sg = wrapped_sg
        self.installed = True


def compile_main(model_bytes, cfg, want_sideband=False, name="net"):
    """Runs vela.main() on the model in a scratch dir. Must be called inside a forked child.
    Returns dict(status=int|exception-string, out=bytes|None, csv=dict|None, sideband=...)."""
    core.bind_repo()
    from ethosu.vela import vela

    d = tempfile.mkdtemp(prefix="vfw-")
    try:
        src = os.path.join(d, name + ".tflite")
        with open(src, "wb") as f:
            f.write(model_bytes)
        outdir = os.path.join(d, "out")
        sb = None
        if want_sideband:
            sb = SideBand()
            sb.install()
        args = [src, "--output-dir", outdir] + config_args(cfg)
        cwd = os.getcwd()
        os.chdir(d)
        # the compiler's own console output (fd level) is kept: its placement messages are part of what the user is told
        import sys

        logf = tempfile.TemporaryFile()
        sys.stdout.flush()
        sys.stderr.flush()
        old1, old2 = os.dup(1), os.dup(2)
        os.dup2(logf.fileno(), 1)
        os.dup2(logf.fileno(), 2)
        try:
            status = vela.main(args)
        finally:
            sys.stdout.flush()
            sys.stderr.flush()
            os.dup2(old1, 1)
            os.dup2(old2, 2)
            os.close(old1)
            os.close(old2)
            os.chdir(cwd)
            logf.seek(0)
            log = logf.read().decode("utf-8", "replace")
            logf.close()
            sys.stdout.write(log)
        rec = dict(status=status, out=None, csv=None, log=log)
        outp = os.path.join(outdir, name + "_vela.tflite")
        if os.path.exists(outp):
            rec["out"] = open(outp, "rb").read()
        for fn in os.listdir(outdir) if os.path.isdir(outdir) else []:
            if "_summary_" in fn and fn.endswith(".csv"):
                rows = list(csv.DictReader(open(os.path.join(outdir, fn))))
                if rows:
                    rec["csv"] = rows[0]
        if sb is not None:
            rec["sideband"] = sb
        return rec
    finally:
        shutil.rmtree(d, ignore_errors=True)
