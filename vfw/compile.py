"""Run the real compiler (vela.main / convert / convert_bytes) on a model and return a compile record.

Executed inside a forked child (isolate.run_forked) so that no process-global state of Vela survives."""
import csv
import io
import os
import shutil
import tempfile

from . import core

ARM_INI = os.path.join(core.REPO, "ethosu", "config_files", "Arm", "vela.ini")

ACCS = ["ethos-u65-256", "ethos-u55-128", "ethos-u65-512", "ethos-u55-256", "ethos-u55-64", "ethos-u55-32"]
SYS_FOR = {"u55": "Ethos_U55_High_End_Embedded", "u65": "Ethos_U65_High_End"}


def config_args(cfg):
    """cfg = dict(acc, mem (default|Sram_Only|Shared_Sram|Dedicated_Sram), opt (Performance|Size), arena (None|int),
    alloc (HillClimb|Greedy|LinearAlloc), align (16..))."""
    a = ["--accelerator-config", cfg.get("acc", "ethos-u65-256")]
    mem = cfg.get("mem", "default")
    if mem != "default":
        fam = "u65" if "u65" in cfg.get("acc", "ethos-u65-256") else "u55"
        a += ["--config", cfg.get("ini", ARM_INI), "--system-config", SYS_FOR[fam], "--memory-mode", mem]
    if cfg.get("opt"):
        a += ["--optimise", cfg["opt"]]
    if cfg.get("arena") is not None:
        a += ["--arena-cache-size", str(cfg["arena"])]
    if cfg.get("alloc"):
        a += ["--tensor-allocator", cfg["alloc"]]
    if cfg.get("align"):
        a += ["--cpu-tensor-alignment", str(cfg["align"])]
    a += cfg.get("extra", [])
    return a


def cfg_key(cfg):
    return "%s/%s/%s/%s/%s/%s" % (cfg.get("acc", "ethos-u65-256"), cfg.get("mem", "default"), cfg.get("opt", "Performance"),
                                  cfg.get("arena"), cfg.get("alloc", "HillClimb"), cfg.get("align", 16))


# configuration lattice ------------------------------------------------------------------------
def lattice(name):
    mems = ["default", "Sram_Only", "Shared_Sram", "Dedicated_Sram"]
    opts = ["Performance", "Size"]
    arenas = [None, 4096, 16384, 65536]
    allocs = ["HillClimb", "Greedy", "LinearAlloc"]
    aligns = [16, 64, 256]
    if name == "full":
        return [dict(acc=a, mem=m, opt=o, arena=ar, alloc=al, align=ag) for a in ACCS for m in mems for o in opts for ar in arenas for al in allocs for ag in aligns
                if not (m == "Dedicated_Sram" and "u55" in a)]
    if name == "c24":
        # every value of every axis occurs with every accelerator (4 rows per accelerator, latin-square style)
        out = []
        for ai, a in enumerate(ACCS):
            for r in range(4):
                m_ = mems[(r + ai) % 4]
                if m_ == "Dedicated_Sram" and "u55" in a:
                    m_ = "Shared_Sram"  # Dedicated_Sram needs a DRAM port: Ethos-U65 only
                out.append(dict(acc=a, mem=m_, opt=opts[(r + ai) % 2], arena=arenas[(r + 2 * ai + 1) % 4],
                                alloc=allocs[(r + ai) % 3], align=aligns[(r + ai) % 3]))
        return out
    if name == "c8":
        rows = [("ethos-u65-256", "default", "Performance", None, "HillClimb", 16),
                ("ethos-u55-128", "Shared_Sram", "Size", None, "Greedy", 64),
                ("ethos-u65-512", "Dedicated_Sram", "Performance", 16384, "LinearAlloc", 16),
                ("ethos-u55-256", "Sram_Only", "Performance", 4096, "HillClimb", 256),
                ("ethos-u55-64", "Sram_Only", "Size", 65536, "Greedy", 16),
                ("ethos-u55-32", "Shared_Sram", "Performance", 4096, "LinearAlloc", 64),
                ("ethos-u65-256", "Sram_Only", "Size", None, "Greedy", 16),
                ("ethos-u65-512", "default", "Performance", 4096, "HillClimb", 64)]
        return [dict(acc=a, mem=m, opt=o, arena=ar, alloc=al, align=ag) for a, m, o, ar, al, ag in rows]
    if name == "c4":
        return lattice("c8")[:4]
    if name == "c2":
        return lattice("c8")[:2]
    if name == "c1":
        return lattice("c8")[:1]
    raise ValueError(name)


# side-band capture ----------------------------------------------------------------------------
class SideBand:
    def __init__(self):
        self.streams = []  # per generate_command_stream call: dict(npu_ops=[...], accelerator, mem_limits)
        self.installed = False

    def install(self):
        from ethosu.vela import high_level_command_to_npu_op as h2n
        from ethosu.vela import register_command_stream_generator as rcsg

        orig = rcsg.generate_command_stream
        sb = self

        def wrapped(npu_op_list, arch, verbose, mem_limits, add_to_debug_db=None, npu_op_to_cmd=None):
            res = orig(npu_op_list, arch, verbose, mem_limits, add_to_debug_db, npu_op_to_cmd)
            sb.streams.append(dict(npu_ops=list(npu_op_list), mem_limits=dict(mem_limits), words=list(res), acc=arch.accelerator_config.value))
            return res

        rcsg.generate_command_stream = wrapped
        if hasattr(h2n, "generate_command_stream"):
            h2n.generate_command_stream = wrapped
        self.installed = True


def compile_main(model_bytes, cfg, want_sideband=False, name="net"):
    """Runs vela.main() on the model in a scratch dir. Must be called inside a forked child.
    Returns dict(status=int|exception-string, out=bytes|None, csv=dict|None, sideband=...)."""
    core.bind_repo()
    from ethosu.vela import vela

    d = tempfile.mkdtemp(prefix="vfw-")
    try:
        src = os.path.join(d, name + ".tflite")
        with open(src, "wb") as f:
            f.write(model_bytes)
        outdir = os.path.join(d, "out")
        sb = None
        if want_sideband:
            sb = SideBand()
            sb.install()
        args = [src, "--output-dir", outdir] + config_args(cfg)
        cwd = os.getcwd()
        os.chdir(d)
        try:
            status = vela.main(args)
        finally:
            os.chdir(cwd)
        rec = dict(status=status, out=None, csv=None)
        outp = os.path.join(outdir, name + "_vela.tflite")
        if os.path.exists(outp):
            rec["out"] = open(outp, "rb").read()
        for fn in os.listdir(outdir) if os.path.isdir(outdir) else []:
            if "_summary_" in fn and fn.endswith(".csv"):
                rows = list(csv.DictReader(open(os.path.join(outdir, fn))))
                if rows:
                    rec["csv"] = rows[0]
        if sb is not None:
            rec["sideband"] = sb
        return rec
    finally:
        shutil.rmtree(d, ignore_errors=True)
