#!/venv/bin/python
"""Regenerates MANIFEST.json from the table below (single source of truth for what is claimed)."""
import json
import os

HERE = os.path.dirname(os.path.dirname(os.path.abspath(__file__)))
BASE = "cd /repo && /venv/bin/python -m pytest -ra -q -p no:cacheprovider --timeout=900 --continue-on-collection-errors"

# id -> (category, technique, text, note, design_ref)
CHECKS = {}
NOT_YET = {}


def claim(pid, cat, technique, text, note, ref):
    CHECKS[pid] = (cat, technique, text, note, ref)


exec(open(os.path.join(HERE, "tools", "claims.py")).read())

ALL = ["C%02d" % i for i in range(1, 20)]
checks = []
for pid in ALL:
    if pid not in CHECKS:
        continue
    cat, technique, text, note, ref = CHECKS[pid]
    checks.append({
        "property_id": pid,
        "quick_cmd": "./check %s --tier quick" % pid,
        "thorough_cmd": "./check %s --tier thorough" % pid,
        "evidence_file": "/verif/evidence/%s.json" % pid,
        "replay_cmd_template": "./check %s --replay {path}" % pid,
        "engine": "vfw",
        "level_claimed": {"category": cat, "text": text, "design_ref": ref},
        "level_note": note,
        "technique": technique,
    })
man = {
    "version": 1,
    "setup_cmd": "./setup.sh",
    "hooks": {
        "guard": "ETHOS_U_VELA_VERIF",
        "enable": "none needed: the harness wraps module attributes of the imported tree inside its own process (vfw/); no source line in /repo reads the guard",
        "baseline_off_cmd": BASE,
        "source_commits": [],
        "add_only": True,
    },
    "engines": [
        {"name": "vfw", "path": "/verif/vfw", "serves_properties": sorted(CHECKS),
         "kind_free_text": "hand-written explicit-state / bounded-exhaustive explorer in Python driving the real code of /repo's working tree (fork-isolated), with pinned hardware tables and independent reference models"},
    ],
    "checks": checks,
    "not_applicable": [{"property_id": p, "reason": NOT_YET[p]} for p in ALL if p not in CHECKS],
    "notes": "See DESIGN.md. Exit codes: 0 held (possibly KNOWN-FINDING lines), 1 VIOLATION, 2 inconclusive, 3 harness error.",
}
json.dump(man, open(os.path.join(HERE, "MANIFEST.json"), "w"), indent=1)
print("MANIFEST.json: %d checks, %d not_applicable" % (len(checks), len(man["not_applicable"])))
