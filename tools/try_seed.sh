#!/bin/bash
# try_seed.sh <dir with patch.diff> <label> <check ids...> : runs the given quick checks of a COPY of /verif against a scratch worktree of /repo
# with the patch applied (VERIF_REPO), so that /repo and /verif/evidence stay untouched.  Removes worktree and copy afterwards.
D="$1"; L="$2"; shift 2
WT=/tmp/try-wt-$L; VF=/tmp/try-vf-$L
git -C /repo worktree add -q --detach "$WT" HEAD || exit 2
cp /repo/ethosu/mlw_codec*.so "$WT/ethosu/"
(cd "$WT" && git apply "$D/patch.diff") || { echo "$L: patch does not apply"; git -C /repo worktree remove --force "$WT"; exit 2; }
mkdir -p "$VF"; rsync -a --exclude .git --exclude seeded /verif/ "$VF/"
cd "$VF"
for c in "$@"; do
  out=$(VERIF_REPO="$WT" VERIF_SEED=${VERIF_SEED:-0} timeout ${TRY_TIMEOUT:-1500} ./check $c --tier ${TIER:-quick} 2>&1); rc=$?
  echo "$L: $c rc=$rc $(echo "$out" | grep -c '^VIOLATION') violations; $(echo "$out" | grep -m2 'key:' | cut -c1-200 | tr '\n' ' ')"
done
cd /; rm -rf "$VF"; git -C /repo worktree remove --force "$WT"
