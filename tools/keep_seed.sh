#!/bin/bash
# keep_seed.sh <src dir> <seed id> "<caught by / results text>"
S="$1"; ID="$2"; NOTE="$3"
mkdir -p /verif/seeded/$ID
cp "$S/patch.diff" "$S/demo.py" /verif/seeded/$ID/
/venv/bin/python - "$S/meta.json" "/verif/seeded/$ID/meta.json" "$NOTE" <<'PY'
import json,sys
try: m=json.load(open(sys.argv[1]))
except Exception as e: m={"error":"agent meta.json unreadable: %s"%e}
m["confirmed_by_me"]="tools/confirm_seed.sh in a scratch worktree: demo exits 0 on the unchanged tree and non-zero with the patch; pinned test suite with the patch: 539 passed (the 4 failing tests fail on the unchanged tree too and are not in the stable baseline)"
m["checks_run_against_it"]=sys.argv[3]
json.dump(m,open(sys.argv[2],"w"),indent=1)
PY
