#!/bin/bash
# usage: run_on_seed.sh <patch.diff> <check ids...> : applies the patch to /repo, runs the quick checks, reverts. Prints exit codes.
P="$1"; shift
cd /repo && git apply "$P" || exit 2
cd /verif
for c in "$@"; do
  out=$(VERIF_SEED=${VERIF_SEED:-0} ./check $c --tier ${TIER:-quick} 2>&1); rc=$?
  echo "$c rc=$rc $(echo "$out" | grep -c '^VIOLATION') violations; $(echo "$out" | grep -m1 'key:' | cut -c1-160)"
done
cd /repo && git checkout -- . && git status --short | head -3
