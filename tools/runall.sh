#!/bin/bash
# runs every claimed quick check; prints one line each; exit 1 if any is not 0
cd /verif; rc=0
for c in $(/venv/bin/python -c "import json;print(' '.join(x['property_id'] for x in json.load(open('MANIFEST.json'))['checks']))"); do
  s=$(date +%s); out=$(VERIF_SEED=${VERIF_SEED:-0} ./check $c --tier quick 2>&1); r=$?; e=$(date +%s)
  echo "$c rc=$r $((e-s))s $(echo "$out" | grep -c '^KNOWN-FINDING') known; $(echo "$out" | tail -1 | cut -c1-120)"
  [ $r -ne 0 ] && rc=1
done
exit $rc
