"""debug helper: tools/dump_case.py <replay.json>  -- prints high-level commands and decoded ops of the case"""
import json, sys
sys.path.insert(0, "/verif")
from vfw import core, compile as C, outfile, sweep, netrun
from vfw.npu import decode as D
core.bind_repo()
case = json.load(open(sys.argv[1]))["case"]
if case.get("forced"):
    from vfw import forced
    forced.install(case["forced"])
mb = sweep.model_bytes(case, case.get("seed", 0))
rec = C.compile_main(mb, case["cfg"], want_sideband=True)
print("status", rec["status"])
an = outfile.analyse(rec["out"])
streams = netrun.decode_streams(an, rec, case["cfg"]["acc"])
for t in an.get("tensors", [])[:0]:
    print(t)
for s in streams:
    print("stream ops", len(s.ops), "problems", s.problems)
    for i, op in enumerate(s.ops):
        c = s.cmds[i] if s.cmds else None
        print("--- op", i, op.kind, getattr(op, "sub", None))
        if c:
            print("   cmd:", {k: c[k] for k in c if k in ("kind", "op", "name", "ifm_box", "ofm_box", "upscale", "ps", "read_offsets", "read_shapes", "write_offset", "ifm_view", "ofm_view", "block_type")})
            print("   ifm:", c.get("ifm"), " ofm:", c.get("ofm"))
        if op.kind != "dma":
            i0 = D.ifm_of(op) if hasattr(D, "ifm_of") else None
            o = D.ofm_of(op)
            for nm, f in (("ifm", i0), ("ofm", o)):
                if f is not None:
                    print("   %s:" % nm, {k: getattr(f, k) for k in dir(f) if not k.startswith("_") and not callable(getattr(f, k))})
