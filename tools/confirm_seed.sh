#!/bin/bash
# usage: confirm_seed.sh <dir with patch.diff demo.py meta.json>  -> prints CONFIRMED / NOT-CONFIRMED
# Confirms in a scratch worktree (outside /repo and /verif): patch applies, pinned test suite still passes (same pass count as without),
# demo fails with the patch and passes without it. Removes the worktree afterwards.
set -u
D="$1"; ID=$(basename "$D")
WT=/tmp/confirm-wt-$ID-$$
git -C /repo worktree add -q --detach "$WT" HEAD || exit 2
cp /repo/ethosu/mlw_codec*.so "$WT/ethosu/"
cd "$WT"
run_demo() { (cd "$WT" && PYTHONPATH="$WT" timeout 600 /venv/bin/python "$D/demo.py" >/tmp/confirm-$ID-demo-$1.log 2>&1; echo $?); }
base_demo=$(run_demo base)
git apply "$D/patch.diff" || { echo "NOT-CONFIRMED $ID: patch does not apply"; git -C /repo worktree remove --force "$WT"; exit 1; }
mut_demo=$(run_demo mut)
tests=$(PYTHONPATH="$WT" /venv/bin/python -m pytest -q -p no:cacheprovider --timeout=900 ethosu 2>&1 | tail -1)
git -C /repo worktree remove --force "$WT"
echo "$ID: demo(base)=$base_demo demo(mutated)=$mut_demo tests(mutated): $tests"
if [ "$base_demo" = "0" ] && [ "$mut_demo" != "0" ] && echo "$tests" | grep -q "539 passed"; then echo "CONFIRMED $ID"; else echo "NOT-CONFIRMED $ID"; fi
