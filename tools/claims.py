# executed by gen_manifest.py
for _p in ["C%02d" % i for i in range(1, 20)]:
    NOT_YET[_p] = "check not built yet in this session (design in DESIGN.md section 4); will be claimed once its driver is silent on the unchanged tree"

claim("C17", "exploration", "bounded-exhaustive enumeration of stream lengths x accelerators through the real payload builder against a pinned framing table",
      "Every stream length 0..4096 (thorough 0..16384 plus 2^16 and 2^24 boundaries) x 6 accelerators x both entry points is built by the real code and compared byte-for-byte with an independently written framing and re-parsed the way the driver does.",
      "Pinned framing/ID/config layout in vfw/npu/isa.py is taken as the driver truth; word contents are a counter pattern (the builder is content-oblivious by inspection, two patterns are used for short streams).",
      "DESIGN.md section 4 C17")

claim("C05", "exploration", "bounded-exhaustive enumeration of ordered live-range sets through the three real allocators against a brute-force overlap/alignment/footprint oracle",
      "Every ordered sequence of <=3 live ranges over a 60-item (start,end,size,alignment) lattice (thorough: 160 items, plus depth 4 on the 60-item lattice, iteration and memory limits) is allocated by Greedy, LinearAlloc and HillClimb through their real entry points; an independent O(n^2) oracle decides overlap, alignment, reported total, peak bound, iteration bound and RNG-history independence.",
      "'total equals highest end address' is read as hi <= total <= round_up(hi, alignment); sets with more than 4 ranges are only reached through compiled networks (C12).",
      "DESIGN.md section 4 C05")

claim("C13", "exploration", "bounded-exhaustive enumeration of generated networks x configurations, corner models and CLI option values through the real compiler driver in forked children",
      "Every network of the grammar up to depth 2 (thorough: larger alphabet, depth-3 chains) x a configuration sub-lattice, every builtin operator as a corner model in several arities/ranks/types, structural corner models and every CLI option value are compiled through vela.main(); the outcome must be an output model that a plain flatbuffer reader parses, or a non-zero status with an Error diagnosis; any escaping exception, hang or death is a violation keyed by its crash site.",
      "Validity of a generated model is by construction (schema-valid parts); there is no TFLite interpreter in the image to confirm semantic validity, so corner-model crashes are recorded as findings with that qualification. Crash identity = exception type + innermost Vela frame.",
      "DESIGN.md section 4 C13")

claim("C02", "exploration", "bounded-exhaustive enumeration of networks x configurations; every emitted stream decoded from the output file and its exact footprints compared with published extents",
      "Every network of the grammar (depth <= 2 quick; larger alphabet, depth-3 chains thorough) x configuration sub-lattice is compiled by the real driver; each command stream is decoded from the bytes of the output file with a pinned ISA table and the exact strided footprint of every operation and DMA is checked against the extents of the flash, scratch, fast-scratch tensors and SHRAM; no write to the constants region; fast scratch <= arena cache size in dedicated-SRAM modes.",
      "Hardware fetch extent of an operation is derived from its OFM extent/kernel/stride/padding/upscale registers (A1/A2); networks beyond the depth bound are not covered.",
      "DESIGN.md section 4 C02")
claim("C12", "exploration", "bounded-exhaustive enumeration of networks x (memory mode, allocator, alignment, cache size); arena plan re-derived from the output file only",
      "For every compiled case the OfflineMemoryAllocation offsets, tensor sizes and operator order of the output file give live intervals and extents; pairwise live overlap, alignment to --cpu-tensor-alignment, scratch tensor at offset 0 containing all custom-op operands and the whole region-1 footprint, fast-scratch aliasing/cache containment and the summary CSV figures are checked.",
      "Scratch tensors are containers (A8); in-place aliasing inside one Ethos-U operator is delegated to C03; liveness is defined by the output operator order.",
      "DESIGN.md section 4 C12")

claim("C04", "model_checking", "explicit-state BFS of an asynchronous NPU execution model over command streams emitted by the real generator (unit op lists and compiled networks)",
      "The asynchronous machine (DMA queue, kernel queue, in-order job start/retire, BLOCKDEP window, issue stalls) is explored exhaustively for every op list of length <= 2 (thorough 3) over ~60 ops on aliasing buffers through the public generator on U55-128 and U65-256, and for every stream of the network sweep decoded from the output file; in every reachable state no DMA/kernel-op pair and no pair of in-flight block jobs may conflict (exact per-job footprints).",
      "The hardware model is the one the property statement names, written down in DESIGN.md C04; it is deliberately weak where unsure (no WAR/WAW between pipelined kernel jobs, REDUCE_SUM and convolutions traverse the IFM in depth slices). Streams are bound to the implementation by decoding the emitted words; decoded op sequences are matched 1:1 with the NpuOperation lists (traces_validated_against_impl).",
      "DESIGN.md section 4 C04")

claim("C09", "exploration", "exhaustive enumeration of float32 mantissas / float64 exponents / window sizes / accumulators through the real scaling functions against exact rational arithmetic",
      "quantise_scale and reduced_quantise_scale are run on all 2^23 float32 mantissas at 3 exponents (thorough: all 68 exponents around the representable range) and on every float64 exponent x 36 mantissas (incl. rounding-up-to-2^31 cases), quantise_pooling_scale on all window sizes 1..65536 with every accumulator an 8-bit window <= 64 (16-bit <= 8; thorough 256/16) can produce, and the elementwise mul/add/sub scale triples on a 40^3 lattice; each result is judged with exact integers/rationals against TFLite's QuantizeMultiplier.",
      "Hardware range is read as 2^-33 <= s < 2^31 (canonical form exists); for negative accumulators round-half-up is read on the magnitude (ties away from zero, as the TFLite reference average pool); elementwise expressions are evaluated with double-precision operands.",
      "DESIGN.md section 4 C09")

claim("C19", "exploration", "exhaustive enumeration of 8/16-bit operand domains and table codes through the real helpers / the real compiler against gemmlowp and reference-kernel definitions on unbounded integers",
      "fp_math helpers on every int16 value x 45 boundary operands x the operand types the call sites use (int, np.int16, np.int32), 32-bit helpers on a 190-point boundary lattice squared and all exponents, exp_on_negative_values on the 2^17-point Q5.26 lattice; QUANTIZE constant folding on all int8 / strided int16 constants x quantisation lattice and float constants at every half-integer multiple of the scale +-1 ulp; all 256 codes of every sigmoid/tanh/leaky-relu/hard-swish table taken from compiled output files over a quantisation lattice.",
      "References are written from the public gemmlowp/TFLite definitions (vfw/ref/quant.py); table entries within 1e-4 LSB of a tie accept both neighbours; hard-swish/leaky-relu entries may equal the TFLite integer kernel instead of the rounded real function; 32-bit operand products are a boundary lattice.",
      "DESIGN.md section 4 C19")

claim("C15", "exploration", "bounded-exhaustive enumeration of an operation lattice x 6 accelerators through the public block-config query and the real generator, plus every kernel op of the network sweep, against a pinned shared-buffer oracle",
      "For ~4000 op specs (conv both traversals, depthwise, max/avg pool with and without LUT, elementwise unary/binary/scalar/broadcast in 8/16/32 bit, nearest upscale; shapes incl. 1-D and non-multiple depths) x 6 accelerators every offered block configuration (quick: up to 12 evenly spaced per op; thorough: all) is handed to the real generator, must be accepted, and the decoded block and IB_END/AB_START/IB2_START/ACC_FORMAT registers must satisfy the bank arithmetic of A4; the same register check runs on every kernel op of every emitted stream.",
      "Bank counts, granules, micro-blocks are pinned in vfw/npu/isa.py; the IFM block is derived from the OFM block by the receptive-field rule with the 8x8 sub-kernel limit.",
      "DESIGN.md section 4 C15")

claim("C18", "model_checking", "explicit enumeration of a generated .ini space resolved by a model written from OPTIONS.md and by the real ArchitectureFeatures (conformance on every file), plus the command-line path through vela.main()",
      "All 34 634 files of the space (6 inheritance structures incl. self-inheritance and missing parent x placements of each option over a 3-level chain x section selections x CLI sizes incl. 0 and out-of-range) are resolved by both the model and the implementation on U55-128 and U65-256 and every resolved parameter is compared; error cases must be rejected, valid ones accepted. 96 command-line cases (bundled name vs absolute path x 3 working directories incl. one holding a decoy Arm/vela.ini x memory modes x CLI size given/absent/0) run through vela.main() and are judged on the --verbose-config output.",
      "The model is the documented rule set R1-R9 (DESIGN.md A5); any exception counts as rejection for invalid files; inheritance cycles longer than 1 are not generated.",
      "DESIGN.md section 4 C18")

claim("C11", "exploration", "bounded-exhaustive enumeration of mixed CPU/NPU networks x configurations; source and output flatbuffers decoded by a plain reader and compared field by field",
      "Every network of the grammar (CPU-only steps: third-party custom op, NEG, DEPTH_TO_SPACE, dynamic-weight CONV_2D with/without bias; taps and CPU/NPU branches giving several outputs and multi-consumer tensors) x configuration sub-lattice and every builtin operator as a single-operator model is compiled; subgraph inputs/outputs (order, name, shape, type, quantisation), every surviving operator (opcode, version, option table field by field via generic vtable walk, custom options, operand positions incl. omitted (-1) operands, constant operand data) or its absorption/folding, topological operator order, and re-readability by Vela's own reader are checked.",
      "Tensor identity across files is the tensor name; an absent option table equals a table of defaults; trailing omitted operands equal a shorter operand list; single-operator corner models without option tables are judged on interface/wiring only.",
      "DESIGN.md section 4 C11")

claim("C14", "model_checking", "explicit exploration of compilation histories in one process (BFS to depth 2/3) with a differential oracle against the same event from the initial process state; fresh interpreters for hash-seed / heap-layout axes",
      "60 events (12 models chosen to share process-global keys - LUTs, value-keyed weights, zero biases, duplicate tensor names, CPU operators, two networks that enter the hill-climb random search - x {main on 3 accelerators, convert, convert_bytes}); every history of length 2 (thorough: length 3 over distinct models) runs in one forked process and the bytes + summary of its last event must equal those of that event alone; main/convert/convert_bytes must agree byte for byte; 12 events are repeated in fresh interpreters under several PYTHONHASHSEED values and heap perturbations.",
      "Initial process state = worker that imported Vela but never compiled; histories longer than 3 are not explored; canonical-state pruning is not used (all histories are run).",
      "DESIGN.md section 4 C14")

claim("C03", "model_checking", "value-free execution (tag machine) of every emitted command stream over shadow memory holding the last writer of each byte; state = stream position + shadow memory, invariant checked at every read",
      "For every compiled network x configuration the streams are decoded from the output file and executed in program order with CPU operators defining their outputs in between; every IFM/IFM2 byte read must carry the identity (tensor, logical element) the compiler's high-level command names, weights/scales/LUT bytes must hold exactly the constant bytes of the intended slice (directly or through a DMA'd buffer), DMA sources must be defined, and a custom operator's declared outputs must have been produced where the file places them. Rolling buffers, double-buffered weights, in-place reuse and LUT slot reuse are exercised by the sweep (counters in evidence).",
      "Operations execute atomically in program order (asynchrony is C04); expected identities come from the side-band high-level command list while all addresses come from the emitted registers; decoded op lists are matched 1:1 with the NpuOperation lists (traces_validated_against_impl).",
      "DESIGN.md section 4 C03")
