#!/bin/bash
# runs every claimed thorough check sequentially; one line each into .cache/thorough.log (full output in .cache/thorough-<id>.out)
cd /verif; mkdir -p .cache
for c in ${@:-$(/venv/bin/python -c "import json;print(' '.join(x['property_id'] for x in json.load(open('MANIFEST.json'))['checks']))")}; do
  s=$(date +%s); VERIF_SEED=${VERIF_SEED:-0} ./check $c --tier thorough > .cache/thorough-$c.out 2>&1; r=$?; e=$(date +%s)
  echo "$c rc=$r $((e-s))s $(grep -c '^KNOWN-FINDING' .cache/thorough-$c.out) known; $(tail -1 .cache/thorough-$c.out | cut -c1-160)" >> .cache/thorough.log
done
