#!/bin/bash
# Offline setup: nothing to download; creates scratch dirs and byte-checks the framework.
set -e
cd "$(dirname "$0")"
mkdir -p evidence replay .cache
/venv/bin/python -m compileall -q vfw >/dev/null
/venv/bin/python -m vfw.selftest
