import sys,itertools,collections,math,random; import os; sys.path.insert(0,os.environ.get('REPO','/repo'))
from ethosu.vela import hillclimb_allocation as hc, greedy_allocation as ga, tensor_allocation as ta, scaling
from ethosu.vela.live_range import LiveRange, LiveRangeGraph
from ethosu.vela.tensor import Tensor
from ethosu.vela.data_type import DataType
def mk(specs):
    g=LiveRangeGraph()
    for i,(s,e,sz,al) in enumerate(specs):
        t=Tensor([sz],DataType.uint8,'t%d'%i); t.alignment=1
        lr=LiveRange(t,al); lr.start_time=s; lr.end_time=e; lr.size=sz; g.lrs.append(lr); g.ranges[t]=lr
    return g
def check(specs,addrs,total,tag,bad,ex):
    hi=0; tags=[]
    for i,(s,e,sz,al) in enumerate(specs):
        a=addrs[i]
        if a%al: tags.append('align')
        hi=max(hi,a+sz)
        for j in range(i):
            s2,e2,sz2,al2=specs[j]; a2=addrs[j]
            if s<=e2 and s2<=e and a<a2+sz2 and a2<a+sz: tags.append('overlap')
    maxal=max(al for *_,al in specs)
    if total<hi: tags.append('total_low')
    elif total>-(-hi//maxal)*maxal: tags.append('total_high')
    T=1+max(e for _,e,_,_ in specs)
    peak=max(sum(sz for s,e,sz,al in specs if s<=t<=e) for t in range(T))
    if tag=='hill' and total<peak: tags.append('below_peak')
    for t_ in set(tags):
        bad[(tag,t_)]+=1; ex.setdefault((tag,t_),(specs,addrs,total,hi))
iv=[(s,e) for s in range(4) for e in range(s,4)]
items=[(s,e,sz,al) for (s,e) in iv for sz in (16,48,112,100) for al in (16,64)]
bad=collections.Counter(); ex={}; n=0
for N in (1,2,3):
  pool=items if N<3 else items[::3]
  for specs in itertools.product(pool,repeat=N):
    n+=1
    g=mk(specs); tot=ga.allocate_live_ranges(g,16); check(specs,[lr.tensors[0].address for lr in g.lrs],tot,'greedy',bad,ex)
    from ethosu.vela.tensor import TensorAddressMap; TensorAddressMap.clear_address_map()
    g=mk(specs); tot=ta.linear_allocate_live_ranges(g,max(al for *_,al in specs)); check(specs,[lr.tensors[0].address for lr in g.lrs],tot,'linear',bad,ex)
    TensorAddressMap.clear_address_map()
    g=mk(specs); addrs=hc.allocate_live_ranges(g.lrs,None,1<<40); tot=max(a+lr.size for a,lr in zip(addrs,g.lrs)); check(specs,addrs,tot,'hill',bad,ex)
print(n,dict(bad))
for k,v in ex.items(): print(k,v)
