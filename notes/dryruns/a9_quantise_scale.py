import sys,math,struct,collections; import os; sys.path.insert(0,os.environ.get('REPO','/repo'))
import numpy as np
from fractions import Fraction as F
from ethosu.vela import scaling
def tfl_qm(s):  # exact
    q,e=math.frexp(s); m=int(math.floor(q*(1<<31)+0.5)) if q>=0 else None
    # round half away for positive == floor(x+0.5); q*(2^31) exact in double? q has 53 bits -> product exact (scaling by power of 2)
    if m==(1<<31): m//=2; e+=1
    return m,e   # value = m * 2^(e-31)
bad=collections.Counter(); ex={}; n=0
vals=[]
for exp in list(range(-40,36)):
    for mant in (0,1,2,0x400000,0x7ffffe,0x7fffff,0x123456):
        bits=((exp+127)<<23)|mant
        if 0<(exp+127)<255: vals.append(np.frombuffer(struct.pack('<I',bits),dtype=np.float32)[0])
vals+= [np.float64(1)-2.0**-53, np.float64(0.5)+2.0**-53, np.float64(3.0000000001), 1e-12, 1e12, 2.0**-33, 2.0**31, 2.0**32]
for s in vals:
    for fn,prec,lo,hi in ((scaling.quantise_scale,31,1<<30,1<<31),(scaling.reduced_quantise_scale,14,1<<14,1<<15)):
        for conv in (float,lambda x:x):
            m,sh=fn(conv(s)); n+=1
            tags=[]
            S=F(float(s))
            if m==0:
                # must be out of range
                mm,e=tfl_qm(float(s)); shift=31-e
                inr = 0<=shift<64 if fn is scaling.quantise_scale else 16<=shift<64  # reduced form: full shift in [16,63]
                if inr: tags.append('zero_in_range')
            else:
                if not (lo<=m<=hi): tags.append('mult_range')
                if not (0<=sh<=63): tags.append('shift_range')
                val=F(m)/F(2)**sh if sh>=0 else F(m)*F(2)**(-sh)
                if abs(val-S)/S>F(1,2**prec): tags.append('precision')
            for t in tags: bad[(fn.__name__,t)]+=1; ex.setdefault((fn.__name__,t),(repr(s),m,sh))
print(n,dict(bad))
for k,v in ex.items(): print(k,v)
