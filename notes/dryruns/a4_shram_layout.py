import sys,itertools,collections,math; import os; sys.path.insert(0,os.environ.get('REPO','/repo'))
from ethosu.vela.architecture_features import Accelerator, create_default_arch, Block
from ethosu.vela.architecture_allocator import find_block_config
from ethosu.vela.operation import NpuBlockType, Kernel
from ethosu.vela.shape4d import Shape4D
from ethosu.vela.ethos_u55_regs.ethos_u55_regs import resampling_mode
PIN={ # banks, granules [ifm8,ifm16,ew8,ew16,ifm32,acc16,acc32,acc40], ublock (w,h,d)
 'Ethos_U65_512':(48,[8,8,8,8,16,8,16,20],(2,2,8)),'Ethos_U65_256':(48,[8,8,8,8,16,8,16,20],(2,2,8)),'Ethos_U55_256':(48,[8,8,8,8,16,8,16,20],(2,2,8)),
 'Ethos_U55_128':(24,[4,4,4,4,8,4,8,12],(2,1,8)),'Ethos_U55_64':(16,[2,2,2,2,4,4,4,8],(1,1,8)),'Ethos_U55_32':(16,[2,2,2,2,4,4,4,4],(1,1,4))}
def ru(a,b): return -(-a//b)*b
def rud(a,b): return -(-a//b)
bad=collections.Counter(); ex={}; n=0; none=0
for acc in Accelerator:
  arch=create_default_arch(acc); banks,gran,(uw,uh,ud)=PIN[acc.name]
  total=banks-(2 if banks>16 else 0); res_end=2 if banks>16 else 0
  for bt in (NpuBlockType.ConvolutionMxN,NpuBlockType.ConvolutionDepthWise,NpuBlockType.Pooling,NpuBlockType.ElementWise,NpuBlockType.ReduceSum):
    for bits in (8,16,32):
      if bits==32 and bt not in (NpuBlockType.ElementWise,NpuBlockType.ReduceSum): continue
      for (kw,kh) in ((1,1),(3,3),(2,5),(7,7),(9,1),(1,16)):
        if bt==NpuBlockType.ElementWise and (kw,kh)!=(1,1): continue
        for s in (1,2):
          for lut in (0,2):
            for (oh,ow,oc) in itertools.product((1,3,8,33),(1,3,8,33),(1,8,17,64,130)):
              for ew2 in ((None,False),('full',False),('scalar',True)) if bt==NpuBlockType.ElementWise else ((None,False),):
                k=Kernel(kw,kh,s,s)
                ih=(oh-1)*s+kh; iw=(ow-1)*s+kw
                ic=oc if bt not in (NpuBlockType.ConvolutionMxN,NpuBlockType.ReduceSum) else 24
                ifm=Shape4D(1,ih,iw,ic); ofm=Shape4D(1,oh,ow,oc)
                ifm2=Shape4D(1,ih,iw,ic) if ew2[0]=='full' else None
                try:
                    cfg=find_block_config(arch,bt,ofm,ifm,ifm2,ew2[1],bits,k,lut,True,resampling_mode.NONE)
                except Exception as e:
                    bad['EXC:'+type(e).__name__]+=1; ex.setdefault('EXC:'+type(e).__name__,(acc.name,bt.name,bits,kw,kh,s,lut,oh,ow,oc,ew2,str(e)[:80])); continue
                n+=1
                if cfg is None:
                    none+=1; ex.setdefault(("none",acc.name,bt.name,bits),(kw,kh,s,lut,oh,ow,oc,ew2)); continue
                L=cfg.layout; ob=cfg.ofm_block; ib=cfg.ifm_block
                tags=[]
                if not (ob.height>0 and ob.width>0 and ob.depth>0 and ob.height%uh==0 and ob.width%uw==0 and ob.depth%ud==0): tags.append('ublock')
                if ob.height>32 or ob.width>64 or ob.depth>128: tags.append('max')
                ew = bt==NpuBlockType.ElementWise
                gi = gran[{8:2,16:3,32:4}[bits]] if ew else gran[{8:0,16:1,32:4}[bits]]
                ifm_banks=ru(2*rud(ib.height*ib.width*ru(ib.depth*bits//8,8),1024),gi)
                acc_bits=40 if (bits==16 and bt!=NpuBlockType.Pooling) else 32
                ga=gran[7] if acc_bits==40 else gran[6]
                # conv1d optimisation: ofm height 1 & kernel height 1 & ublock h 2 -> acc for height 1
                obh=ob.height
                if oh==1 and kh==1 and uh==2: obh=min(ob.height,oh)
                acc_banks=0 if ew else ru(2*rud(obh*ob.width*ru(ob.depth,8)*acc_bits//8,1024),ga)
                lut_start=banks-max(lut,res_end)
                if L.ib_start!=2: tags.append('ib_start')
                if L.lut_start!=lut_start: tags.append('lut_start')
                if not (L.ib_start<=L.ib_end<=L.ab_start<=L.lut_start<=total): tags.append('order')
                if L.ib_end-L.ib_start<ifm_banks: tags.append('ifm_small')
                if not ew and L.lut_start-L.ab_start<acc_banks: tags.append('acc_small')
                if ew and ew2[0]=='full':
                    if L.ib_start2-L.ib_start<ifm_banks or L.lut_start-L.ib_start2<ifm_banks: tags.append('ifm2_small')
                if tags:
                    key='+'.join(tags); bad[key]+=1; ex.setdefault(key,(acc.name,bt.name,bits,kw,kh,s,lut,oh,ow,oc,ew2,str(ob),str(ib),vars(L),ifm_banks,acc_banks))
print(n,'none',none,dict(bad))
for k,v in ex.items(): print(k,v)
