# design-phase dry run of oracle A1 (DESIGN.md appendix) against Box.transform_with_strides_and_skirt
import sys; import os; sys.path.insert(0,os.environ.get('REPO','/repo'))
from ethosu.vela.high_level_command_stream import Box
from ethosu.vela.tflite_graph_optimiser import calc_padding_and_skirt
from ethosu.vela.operation import Kernel, Padding, NpuBlockType
from ethosu.vela.shape4d import Shape4D
import itertools, collections
def out_h(H,k,s,d,ptype,expl):
    dk=d*(k-1)+1
    if ptype==Padding.SAME: return -(-H//s)
    if ptype==Padding.VALID: return (H-dk)//s+1 if H>=dk else 0
    t,b=expl; return (H+t+b-dk)//s+1 if H+t+b>=dk else 0
bad=collections.Counter(); ex={}; n=0
for H in range(1,13):
  for k in range(1,6):
    for s in (1,2,3):
      for d in (1,2):
        dk=d*(k-1)+1
        for ptype,expl in [(Padding.SAME,None),(Padding.VALID,None)]+[(Padding.EXPLICIT,(t,b)) for t in range(0,min(k,3)) for b in range(0,min(k,3))]:
          Ho=out_h(H,k,s,d,ptype,expl)
          if Ho<=0: continue
          W=6; kern=Kernel(1,k,1,s,1,d)
          pad,skirt=calc_padding_and_skirt(ptype,kern,Shape4D([1,H,W,8]),None if expl is None else (expl[0],0,expl[1],0))
          pt=pad[0]
          for y0 in range(Ho):
            for y1 in range(y0+1,Ho+1):
              if y0==0 and y1==Ho: continue
              box=Box([0,y0,0,0],[1,y1,W,8])
              ib,ptop,pbot=box.transform_with_strides_and_skirt([1,s,1,1],skirt,Shape4D([1,H,W,8]),NpuBlockType.ConvolutionDepthWise,[0,0,0,0],dk)
              first=y0*s-pt; last=(y1-1)*s-pt+dk-1
              r0=max(first,0); r1=min(last,H-1); eptop=max(0,-first); epbot=max(0,last-(H-1))
              g0,g1=int(ib.start_coord[1]),int(ib.end_coord[1])-1
              n+=1
              tags=[]
              if g0!=r0: tags.append('start')
              if g1<r1: tags.append('end_short')
              if g1>H-1: tags.append('end_oob')
              if int(ptop)!=eptop: tags.append('ptop')
              if int(pbot)!=epbot: tags.append('pbot')
              if tags:
                key=(str(ptype).split('.')[-1],'+'.join(tags), 'OFM>IFM' if Ho>H else '')
                bad[key]+=1; ex.setdefault(key,(dict(H=H,k=k,s=s,d=d,expl=expl,y0=y0,y1=y1,Ho=Ho,pad=pad,skirt=skirt),(g0,g1,int(ptop),int(pbot)),(r0,r1,eptop,epbot)))
print(n)
for k,v in sorted(bad.items()): print(k,v,ex[k])
